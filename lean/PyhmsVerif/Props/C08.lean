import PyhmsVerif.Proofs.TreeSteps
import PyhmsVerif.Proofs.SproutLemmas
/-!
# C08 — the level limit on simultaneously active demes is never exceeded

`Inv L t`: on every non-root level of the configured height at most `L` demes are active.
It is established by `init`, and preserved by every step of the model for every mechanism
whose filter chain contains `LevelLimit L` (anywhere, with any other filters around it):
generations and local searches only ever deactivate demes; a sprouting round creates, per
target level, at most `L` minus the demes active there (`Sprout.getSeeds_levelLimit`).
-/
namespace C08
open Tree

def activeAt (ds : List Deme) (l : Nat) : Nat := (ds.filter fun d => d.level == l && d.active).length

theorem activeAt_eq (t : T) (l : Nat) : t.activeAt l = activeAt t.demes l := rfl

theorem activeAt_append (a b : List Deme) (l : Nat) : activeAt (a ++ b) l = activeAt a l + activeAt b l := by
  simp [activeAt, List.filter_append]

/-- activity can only drop along `DemeStep` -/
theorem activeAt_mono {as bs : List Deme} (h : List.Forall₂ DemeStep as bs) (l : Nat) :
    activeAt bs l ≤ activeAt as l := by
  induction h with
  | nil => simp [activeAt]
  | @cons a b as bs hab _ ih =>
    simp only [activeAt, List.filter_cons, hab.level] at ih ⊢
    by_cases hb : (a.level == l && b.active) = true
    · have ha : (a.level == l && a.active) = true := by
        simp only [Bool.and_eq_true] at hb ⊢
        exact ⟨hb.1, hab.activeMono hb.2⟩
      simp only [hb, ha, ↓reduceIte, List.length_cons]; omega
    · simp only [hb, Bool.false_eq_true, ↓reduceIte]
      split
      · simp only [List.length_cons]; omega
      · exact ih

/-- relations that keep level and activity keep the census -/
theorem activeAt_rel {R : Deme → Deme → Prop} (hR : ∀ a b, R a b → b.level = a.level ∧ b.active = a.active)
    {as bs : List Deme} (h : List.Forall₂ R as bs) (l : Nat) : activeAt bs l = activeAt as l := by
  induction h with
  | nil => rfl
  | cons hab _ ih =>
    obtain ⟨h1, h2⟩ := hR _ _ hab
    simp only [activeAt, List.filter_cons, h1, h2] at ih ⊢
    split <;> simp [ih]

/-- the view the sprout mechanism works on shows the same census as the tree -/
theorem view_activeAt (t : T) (l : Nat) (hl : l < t.height) : (view t).activeAt l = t.activeAt l := by
  unfold Sprout.View.activeAt Sprout.View.level view T.levelMajor T.activeAt
  simp only [List.filter_map, List.length_map, List.filter_filter]
  generalize t.height = h at hl
  generalize t.demes = ds
  -- level-major enumeration restricted to level `l` is the creation-order enumeration of level `l`
  have key : ∀ n, (List.filter (fun d : Deme => (d.level == l && d.active))
      ((List.range n).flatMap fun k => ds.filter (·.level == k))).length =
      if l < n then (ds.filter fun d => d.level == l && d.active).length else 0 := by
    intro n
    induction n with
    | zero => simp
    | succ n ih =>
      rw [List.range_succ, List.flatMap_append, List.filter_append, List.length_append, ih]
      simp only [List.flatMap_cons, List.flatMap_nil, List.append_nil, List.filter_filter]
      by_cases h1 : l < n
      · have : ¬ (l = n) := by omega
        have hz : (ds.filter fun a => (a.level == l && a.active) && (a.level == n)) = [] := by
          rw [List.filter_eq_nil_iff]; intro a _; simp; intro h2 _; omega
        simp [h1, Nat.lt_succ_of_lt h1, hz]
      · by_cases h2 : l = n
        · subst h2
          have : (ds.filter fun a => (a.level == l && a.active) && (a.level == l)) =
              ds.filter fun d => d.level == l && d.active := by
            apply List.filter_congr; intro a _; cases h : (a.level == l) <;> simp [h]
          simp [this]
        · have hz : (ds.filter fun a => (a.level == l && a.active) && (a.level == n)) = [] := by
            rw [List.filter_eq_nil_iff]; intro a _; simp; intro h3 _; omega
          have : ¬ l < n + 1 := by omega
          simp [h1, this, hz]
  have := key h
  simp only [hl, ↓reduceIte] at this
  simpa [Function.comp, Bool.and_comm] using this

end C08

namespace C08
open Tree Sprout

/-- every candidate names a deme of the view, carries that deme's level, and that level is
not the last one -/
def CandsOk (v : View) (cs : List Cand) : Prop :=
  ∀ c ∈ cs, ∃ d ∈ v.demes, c.deme = d.id ∧ c.level = d.level ∧ d.level + 1 < v.height

theorem nbcCand_ok {v : View} {env : Env} {phi t : Rat} {d : DemeView} {c : Cand}
    (h : nbcCand v env phi t d = some c) : c.deme = d.id ∧ c.level = d.level := by
  unfold nbcCand at h
  split at h
  · simp at h
  · simp only [Option.map_eq_some_iff] at h
    obtain ⟨r, _, rfl⟩ := h
    exact ⟨rfl, rfl⟩

theorem mapM_nbcCand_ok {v : View} {env : Env} {phi t : Rat} {ds : List DemeView} {cs : List Cand}
    (h : ds.mapM (nbcCand v env phi t) = some cs) :
    ∀ c ∈ cs, ∃ d ∈ ds, c.deme = d.id ∧ c.level = d.level := by
  induction ds generalizing cs with
  | nil => simp only [List.mapM_nil, pure, Option.some.injEq] at h; subst h; simp
  | cons d ds ih =>
    simp only [List.mapM_cons, bind, Option.bind_eq_some_iff, pure] at h
    obtain ⟨c0, hc0, rest, hrest, hcs⟩ := h
    simp only [Option.some.injEq] at hcs
    subst hcs
    intro c hc
    rcases List.mem_cons.mp hc with rfl | hc
    · exact ⟨d, by simp, nbcCand_ok hc0⟩
    · obtain ⟨d', hd', h1⟩ := ih hrest c hc
      exact ⟨d', List.mem_cons_of_mem _ hd', h1⟩

theorem generate_ok {v : View} {env : Env} {g : Generator} {cs : List Cand}
    (h : generate v env g = some cs) : CandsOk v cs := by
  cases g with
  | bestPerDeme =>
    simp only [generate, Option.some.injEq] at h
    subst h
    intro c hc
    simp only [List.mem_filterMap, List.mem_filter, Bool.and_eq_true, decide_eq_true_eq] at hc
    obtain ⟨d, ⟨hd, hlv, _⟩, hb⟩ := hc
    simp only [Option.map_eq_some_iff] at hb
    obtain ⟨b, _, rfl⟩ := hb
    exact ⟨d, hd, rfl, rfl, hlv⟩
  | nbc phi t =>
    simp only [generate] at h
    intro c hc
    obtain ⟨d, hd, h1, h2⟩ := mapM_nbcCand_ok h c hc
    simp only [List.mem_filter, Bool.and_eq_true, decide_eq_true_eq] at hd
    exact ⟨d, hd.1, h1, h2, hd.2.1⟩
  | nbcLocal phi t =>
    simp only [generate, Option.map_eq_some_iff] at h
    obtain ⟨cs1, h1, rfl⟩ := h
    intro c hc
    rcases List.mem_append.mp hc with hc | hc
    · obtain ⟨d, hd, h2, h3⟩ := mapM_nbcCand_ok h1 c hc
      simp only [List.mem_filter, Bool.and_eq_true, decide_eq_true_eq] at hd
      exact ⟨d, hd.1, h2, h3, by omega⟩
    · simp only [List.mem_filterMap, List.mem_filter, Bool.and_eq_true, beq_iff_eq] at hc
      obtain ⟨d, ⟨hd, ⟨hlv, _⟩, _⟩, hb⟩ := hc
      simp only [Option.map_eq_some_iff] at hb
      obtain ⟨b, _, rfl⟩ := hb
      exact ⟨d, hd, rfl, rfl, by omega⟩

theorem shrinks_candsOk {v : View} {cs out : List Cand} (h : Shrinks cs out) (hok : CandsOk v cs) :
    CandsOk v out := by
  induction h with
  | nil => intro c hc; simp at hc
  | @cons a b as bs hab _ ih =>
    intro c hc
    rcases List.mem_cons.mp hc with rfl | hc
    · obtain ⟨d, hd, h1, h2, h3⟩ := hok a (by simp)
      exact ⟨d, hd, hab.1.trans h1, hab.2.1.trans h2, h3⟩
    · exact ih (fun x hx => hok x (List.mem_cons_of_mem _ hx)) c hc

theorem getSeeds_ok {v : View} {env : Env} {m : Mechanism} {seeds : List Cand}
    (h : getSeeds v env m = some seeds) : CandsOk v seeds := by
  simp only [getSeeds, Option.bind_eq_some_iff, Option.map_eq_some_iff] at h
  obtain ⟨g, hg, cs, hcs, rfl⟩ := h
  have := shrinks_candsOk (applyFilters_shrinks hcs) (generate_ok hg)
  intro c hc
  exact this c (List.mem_filter.mp hc).1

/-- under `LvlId`, a candidate's level is the length of its parent's id -/
theorem cand_level_id {t : T} (hl : LvlId t) {cs : List Cand} (hok : CandsOk (view t) cs) :
    ∀ c ∈ cs, c.level = c.deme.length ∧ c.level + 1 < t.height := by
  intro c hc
  obtain ⟨dv, hdv, h1, h2, h3⟩ := hok c hc
  simp only [view, List.mem_map] at hdv
  obtain ⟨d, hd, rfl⟩ := hdv
  simp only [T.levelMajor, List.mem_flatMap, List.mem_range, List.mem_filter] at hd
  obtain ⟨k, _, hdm, _⟩ := hd
  refine ⟨?_, by rw [h2]; exact h3⟩
  rw [h2, h1]
  exact hl d hdm

/-- number of seed individuals whose parent id has length `l` -/
theorem count_flat (seeds : List Cand) (l : Nat) (h : ∀ c ∈ seeds, c.level = c.deme.length) :
    ((seeds.flatMap fun c => c.inds.map fun i => (c.deme, i)).filter fun p => p.1.length == l).length
      = total l seeds := by
  induction seeds with
  | nil => simp [total]
  | cons c cs ih =>
    have hc := h c (by simp)
    have := ih (fun x hx => h x (List.mem_cons_of_mem _ hx))
    simp only [total, List.flatMap_cons, List.filter_append, List.length_append, List.filter_cons] at this ⊢
    rw [this]
    by_cases hl : (c.level == l) = true
    · have hl' : c.deme.length = l := by rw [← hc]; simpa using hl
      simp only [hl, ↓reduceIte, List.flatMap_cons, List.length_append]
      congr 1
      rw [List.filter_eq_self.mpr]
      · simp
      · intro p hp
        simp only [List.mem_map] at hp
        obtain ⟨i, _, rfl⟩ := hp
        simp [hl']
    · have hl' : ¬ c.deme.length = l := by rw [← hc]; simpa using hl
      simp only [hl, Bool.false_eq_true, ↓reduceIte]
      rw [List.filter_eq_nil_iff.mpr]
      · simp
      · intro p hp
        simp only [List.mem_map] at hp
        obtain ⟨i, _, rfl⟩ := hp
        simp [hl']

end C08

namespace C08
open Tree Sprout

/-- the mechanism's filter chain contains `LevelLimit L` -/
def HasLimit (cfg : Cfg) (L : Nat) : Prop :=
  Filter.levelLimit L ∈ cfg.mech.demeFilters ++ cfg.mech.treeFilters

/-- the invariant: ids encode levels, and no non-root level holds more than `L` active demes -/
def Inv (L : Nat) (t : T) : Prop :=
  LvlId t ∧ ∀ l, 1 ≤ l → l < t.height → activeAt t.demes l ≤ L

theorem lvlId_of_forall2 {as bs : List Deme} (h : List.Forall₂ DemeStep as bs) (hl : ∀ d ∈ as, d.level = d.id.length) :
    ∀ d ∈ bs, d.level = d.id.length := by
  intro d hd
  obtain ⟨a, ha, hr⟩ := forall2_mem_right h d hd
  rw [hr.level, hr.id]; exact hl a ha

/-- a generation / local search / loop-head consult never raises the census -/
theorem run_inv {L : Nat} {t t' : T} (hinv : Inv L t) (hc : t'.cfg = t.cfg)
    (hd : List.Forall₂ DemeStep t.demes t'.demes) : Inv L t' := by
  refine ⟨lvlId_of_forall2 hd hinv.1, ?_⟩
  intro l h1 h2
  have : t'.height = t.height := by simp [T.height, hc]
  exact Nat.le_trans (activeAt_mono hd l) (hinv.2 l h1 (this ▸ h2))

theorem new_count {t : T} {flat : List (Id × Ind)} {nd : List Deme} (l : Nat)
    (h : List.Forall₂ (fun (p : Id × Ind) (d : Deme) =>
      d.active = true ∧ d.hib = false ∧ d.startedAt = t.metaepoch ∧ d.seed = some p.2 ∧
      d.parent = some p.1 ∧ (LvlId t → d.level = p.1.length + 1)) flat nd) (hl : LvlId t) :
    activeAt nd (l + 1) = (flat.filter fun p => p.1.length == l).length := by
  induction h with
  | nil => simp [activeAt]
  | @cons p d ps ds hpd _ ih =>
    obtain ⟨ha, _, _, _, _, hlev⟩ := hpd
    have hlv := hlev hl
    simp only [activeAt, List.filter_cons, ha, Bool.and_true, hlv] at ih ⊢
    by_cases hpl : (p.1.length == l) = true
    · have : (p.1.length + 1 == l + 1) = true := by simpa using hpl
      simp [hpl, this, ih]
    · have : (p.1.length + 1 == l + 1) = false := by simpa using hpl
      simp [hpl, this, ih]

/-- **The sprouting round respects the limit.** -/
theorem round_inv {L : Nat} {t t' : T} {ge : Option Bool} {renv : Sprout.Env} {news : List NewEnv}
    (hlim : HasLimit t.cfg L) (hinv : Inv L t) (h : stepRound t ge renv news = .ok t') : Inv L t' := by
  obtain ⟨hc, _, _, _, _, _, hcase⟩ := stepRound_effect h
  rcases hcase with ⟨hd, _, _, _, _⟩ | ⟨_, _, _, seeds, t1, hseeds, se, _, rfl⟩
  · exact ⟨by intro d hd'; rw [hd] at hd'; exact hinv.1 d hd', by
      intro l h1 h2; rw [hd]; exact hinv.2 l h1 (by simpa [T.height, hc] using h2)⟩
  · obtain ⟨old, nd, hd1, hf, hnew⟩ := se.demes
    have hu := updateHibernation_forall2 t1 (seeds.map (·.deme))
    have hidlvl : ∀ a b : Deme, (∃ h, b = { a with hib := h }) → b.level = a.level ∧ b.active = a.active := by
      intro a b hab; obtain ⟨x, rfl⟩ := hab; exact ⟨rfl, rfl⟩
    refine ⟨?_, ?_⟩
    · -- LvlId: hibernation only rewrites `hib`
      intro d hd'
      simp only at hd'
      obtain ⟨a, ha, x, rfl⟩ := forall2_mem_right hu d hd'
      exact se.lvlId hinv.1 a ha
    · intro l h1 h2
      simp only
      rw [activeAt_rel hidlvl hu l, hd1, activeAt_append,
        activeAt_rel (R := SameBC) (fun a b hab => by obtain ⟨cs, rfl⟩ := hab; exact ⟨rfl, rfl⟩) hf l]
      obtain ⟨k, rfl⟩ : ∃ k, l = k + 1 := ⟨l - 1, by omega⟩
      rw [new_count k hnew hinv.1]
      have hok := getSeeds_ok hseeds
      have hci := cand_level_id hinv.1 hok
      rw [count_flat seeds k (fun c hc => (hci c hc).1)]
      have hheight : t.height = (view t).height := rfl
      have h2' : k + 1 < t.height := by
        have : ({ updateHibernation t1 (seeds.map (·.deme)) with pc := Pc.head } : T).height = t.height := by
          simp [T.height, (updateHibernation_frame t1 _).1, se.cfg]
        rw [this] at h2; exact h2
      have hb := getSeeds_levelLimit hseeds hlim
        (fun l' hl' => by
          rw [view_activeAt t (l' + 1) (by rw [hheight]; omega)]
          exact hinv.2 (l' + 1) (by omega) (by rw [hheight]; omega))
        k (by rw [← hheight]; omega)
      rw [view_activeAt t (k + 1) h2'] at hb
      have := hinv.2 (k + 1) (by omega) h2'
      rw [activeAt_eq] at hb
      omega

/-- **The invariant is inductive** for every mechanism containing `LevelLimit L`. -/
theorem step_inv {L : Nat} {t t' : T} {ev : Ev} (hlim : HasLimit t.cfg L) (hinv : Inv L t)
    (h : step t ev = .ok t') : Inv L t' := by
  cases ev with
  | loop ge =>
    obtain ⟨hc, hd, _⟩ := stepLoop_effect h
    exact run_inv hinv hc (hd ▸ forall2_refl _)
  | gen id g l => have e := stepGen_effect h; exact run_inv hinv e.cfg e.demes
  | localRun id reqs its nfev => have e := stepLocal_effect h; exact run_inv hinv e.cfg e.demes
  | round ge renv news => exact round_inv hlim hinv h

theorem step_cfg {t t' : T} {ev : Ev} (h : step t ev = .ok t') : t'.cfg = t.cfg := by
  cases ev with
  | loop ge => exact (stepLoop_effect h).1
  | gen id g l => exact (stepGen_effect h).cfg
  | localRun id reqs its nfev => exact (stepLocal_effect h).cfg
  | round ge renv news => exact (stepRound_effect h).1

theorem init_inv {cfg : Cfg} {stks : List (List Problem.Wrapper)} {rootEnv : NewEnv} {t0 : T} (L : Nat)
    (hi : init cfg stks rootEnv = .ok t0) : Inv L t0 ∧ t0.cfg = cfg := by
  have ce := createDeme_effect hi
  obtain ⟨old, d, hd, hf, _, _, _, hlev, hid, _⟩ := ce.demes
  have hold : old = [] := by cases hf; rfl
  refine ⟨⟨?_, ?_⟩, ce.cfg⟩
  · intro x hx
    rw [hd, hold] at hx
    simp only [List.nil_append, List.mem_singleton] at hx
    subst hx
    simp only at hlev hid
    rw [hlev, hid]; rfl
  · intro l h1 _
    rw [hd, hold]
    simp only [List.nil_append, activeAt, List.filter_cons, List.filter_nil]
    simp only at hlev
    have : (d.level == l) = false := by rw [hlev]; simp; omega
    simp [this]

theorem exec_inv {L : Nat} {t0 t : T} {evs : List Ev} (hlim : HasLimit t0.cfg L) (h0 : Inv L t0)
    (h : exec t0 evs = .ok t) : Inv L t := by
  induction evs generalizing t0 with
  | nil => simp only [exec, Except.ok.injEq] at h; subst h; exact h0
  | cons e es ih =>
    simp only [exec, bind, Except.bind] at h
    split at h
    · simp at h
    · rename_i t1 h1
      exact ih ((step_cfg h1) ▸ hlim) (step_inv hlim h0 h1) h

/-- **C08.** With `LevelLimit L` in the sprouting mechanism, in every state reachable from a
freshly constructed tree — at every moment of the run, for every configuration, engine mix,
stop condition and event sequence — no non-root level has more than `L` active demes. -/
theorem C08_inv {cfg : Cfg} {stks : List (List Problem.Wrapper)} {rootEnv : NewEnv} {t0 t : T}
    {evs : List Ev} {L : Nat} (hlim : HasLimit cfg L)
    (hi : init cfg stks rootEnv = .ok t0) (h : exec t0 evs = .ok t) :
    ∀ l, 1 ≤ l → l < t.height → t.activeAt l ≤ L := by
  obtain ⟨h0, hc⟩ := init_inv L hi
  exact (exec_inv (hc ▸ hlim) h0 h).2

/-- a round never creates more demes on a level than `L` minus the demes active there
(the per-round clause of C08, mechanism level) -/
theorem C08_round {v : View} {env : Sprout.Env} {m : Mechanism} {seeds : List Cand} {L : Nat}
    (h : getSeeds v env m = some seeds) (hmem : Filter.levelLimit L ∈ m.demeFilters ++ m.treeFilters)
    (hact : ∀ l, l < v.height - 1 → v.activeAt (l + 1) ≤ L) :
    ∀ l, l < v.height - 1 → total l seeds ≤ L - v.activeAt (l + 1) :=
  getSeeds_levelLimit h hmem hact

end C08
