"""Whole-run harness: configuration specs, hook-free tracer, state snapshots.

A *spec* is a JSON-able dict from which the real pyhms configuration is built; a traced
run executes `DemeTree` on it step by step and records

  * every invocation of the user's objective (per level, attributed to the deme that was
    running / being created), with a copy of the point and the value;
  * every verdict of the global stop condition and of every local stop condition;
  * every deme creation (through `pyhms.tree.init_from_config`) and every deme metaepoch
    (instance-level wrapper around `run_metaepoch`);
  * input and output of the sprout generator and of every filter of the mechanism;
  * a full snapshot of the tree at every metaepoch boundary.

No pyhms source is modified: everything goes through the public configuration objects,
one module attribute (`pyhms.tree.init_from_config`) and instance attributes.
"""
import copy
import hashlib
import json

import numpy as np

ENGINES_ROOT = ["sea", "seax", "ga", "adapt", "mwea", "de", "ded", "shade", "lhs", "sobol", "xsea", "xde"]
ENGINES_MID = ["sea", "seax", "ga", "adapt", "mwea", "de", "ded", "shade", "cma", "cmaw", "cmas", "xsea", "xde"]
ENGINES_LEAF = ENGINES_MID + ["local"]
POP_ENGINES = {"sea", "seax", "ga", "adapt", "mwea", "de", "ded", "shade", "xsea", "xde"}
ELITIST = {"sea", "seax", "ga", "adapt", "de", "ded", "shade", "xsea", "xde"}
# custom deme classes registered through TreeConfig(config_class_to_deme_class=...):
#   xsea: config subclasses the built-in EALevelConfig, deme subclasses EADeme
#   xde : config derives from BaseLevelConfig only (the documented pattern), deme subclasses DEDeme
CLASS_OF = {"sea": "EADeme", "seax": "EADeme", "ga": "EADeme", "adapt": "EADeme", "mwea": "EADeme", "de": "DEDeme", "ded": "DEDeme", "shade": "SHADEDeme", "cma": "CMADeme", "cmaw": "CMADeme", "cmas": "CMADeme", "local": "LocalDeme", "lhs": "LHSDeme", "sobol": "SobolDeme", "xsea": "UserEADeme", "xde": "UserDEDeme"}
INDEX_STABLE = {"de", "ded", "shade", "cma", "cmaw", "cmas", "local", "lhs", "sobol"}


# ---------------------------------------------------------------- objectives (deterministic)
def make_objective(spec, level=0):
    """deterministic objective of one level; levels of a non-shared problem may differ by a
    constant shift (pyhms allows a different problem per level)"""
    shift = 0.25 * level if (spec.get("level_shift") and not spec.get("shared_problem")) else 0.0
    base = _make_objective(spec)
    if shift == 0.0:
        return base
    sg = -1.0 if spec["maximize"] else 1.0
    return lambda x: base(x) + sg * shift


def _make_objective(spec):
    b = np.array(spec["bounds"], dtype=float)
    lo, hi = b[:, 0], b[:, 1]
    d = len(b)
    kind = spec["objective"]
    sgn = -1.0 if spec["maximize"] else 1.0
    centers = np.array([[-1, -1, 0.5, 2], [3, 3, -1, 0], [-1, 5, 2, 1], [4, 0, 1, -2]], float)[:, :d]

    def four(x):
        z = (np.asarray(x, dtype=float) - lo) / (hi - lo) * 8 - 3
        return float(np.min(np.sum((z - centers) ** 2, axis=1)))

    if kind == "four":
        f = four
    elif kind == "plateau0":  # exact 0.0 on whole regions, many ties

        def f(x):
            return float(max(0.0, np.floor(four(x) * 2.0) / 2.0 - 0.5))

    elif kind == "penalty":  # death penalty: the worst possible value on part of the domain

        def f(x):
            z = (np.asarray(x, dtype=float) - lo) / (hi - lo)
            return float("inf") if z[0] > 0.85 else four(x)

    elif kind == "slope":  # descends towards a corner of the box: every local search runs into the faces

        def f(x):
            z = (np.asarray(x, dtype=float) - lo) / (hi - lo)
            return float(np.sum(z)) + 0.05 * four(x)

    elif kind == "jackpot":  # the best possible value (-inf when minimising) on a small part of the domain

        def f(x):
            z = (np.asarray(x, dtype=float) - lo) / (hi - lo)
            return float("-inf") if float(np.sum((z - 0.3) ** 2)) < 0.02 else four(x)

    elif kind == "holes":  # NaN on a slab of the domain (legal input: NaN is ordered as worst)

        slab_lo, slab_hi = spec.get("nan_slab", (0.4, 0.6))

        def f(x):
            z = (np.asarray(x, dtype=float) - lo) / (hi - lo)
            return float("nan") if slab_lo < z[0] < slab_hi else four(x)

    elif kind == "offset":  # large values, small gaps: relative tolerances in comparisons become visible

        tiny = int(spec.get("seed", 0)) % 2 == 1  # half of them: gaps of 1e-9 relative (tolerant equality tests show)

        def f(x):
            return (1.0e6 + 1.0e-3 * four(x)) if tiny else (1000.0 + four(x))

    elif kind == "sphere":
        # half of them: optimum at the origin when the box contains it — populations converge to coordinates
        # of magnitude 1e-3 .. 1e-9 and to exact zeros (anything that rounds, snaps or formats small numbers)
        at_origin = int(spec.get("seed", 0)) % 2 == 1 and bool(np.all(lo < 0) and np.all(hi > 0))

        def f(x):
            if at_origin:
                z = np.asarray(x, dtype=float) / (hi - lo)
            else:
                z = (np.asarray(x, dtype=float) - lo) / (hi - lo) - 0.5
            return float(np.sum(z * z))

    else:
        raise ValueError(kind)
    return lambda x: sgn * f(x)


class Rec:
    """recording pass-through around the user's objective of one level"""

    def __init__(self, fn, level, run):
        self.fn = fn
        self.level = level
        self.run = run
        self.calls = []  # (who, x(tuple), v)

    def __deepcopy__(self, memo):  # SproutMechanism deep-copies candidates (-> problem -> objective)
        return self

    def __call__(self, x):
        v = self.fn(x)
        xt = tuple(float(t) for t in np.asarray(x, dtype=float))
        self.calls.append((self.run.who, xt, float(v)))
        self.run.ev.append(("EVAL", self.level, self.run.who, xt, float(v)))
        return v


class CountingObjective:
    """picklable callable objective (module-level class) that counts its invocations"""

    def __init__(self, spec, level):
        self.spec = spec
        self.level = level
        self.n = 0
        self._fn = None

    def __getstate__(self):
        return {"spec": self.spec, "level": self.level, "n": self.n, "_fn": None}

    def __call__(self, x):
        if self._fn is None:
            self._fn = make_objective(self.spec, self.level)
        self.n += 1
        return self._fn(x)


# ---------------------------------------------------------------- user-defined stop conditions
class UserLSC:
    """user-defined local stop condition (not a pyhms class): true once the deme has run
    `after` metaepochs; returns a numpy bool on purpose (as FitnessSteadiness does)."""

    def __init__(self, after, numpy_bool=True):
        self.after = after
        self.numpy_bool = numpy_bool

    def __call__(self, deme):
        v = deme.metaepoch_count >= self.after
        return np.bool_(v) if self.numpy_bool else bool(v)

    def __str__(self):
        return f"UserLSC({self.after})"


class UserGSC:
    """user-defined, monotone global stop condition"""

    def __init__(self, evals, metaepochs, look=False):
        self.evals = evals
        self.metaepochs = metaepochs
        self.look = look
        self.curve = []

    def __call__(self, tree):
        if self.look:
            # a user condition that inspects the tree (convergence curve): pure accessors only
            self.curve.append((tree.best_individual.fitness, [d.best_individual.fitness for _, d in tree.all_demes if d.best_individual is not None]))
            # … and the demes' populations, histories and centroids, in the middle of whatever metaepoch is running
            for _, d in tree.all_demes:
                pop = d.current_population
                self.curve.append((len(d.history), len(pop), None if d.centroid is None else float(d.centroid[0]), None if d.best_current_individual is None else d.best_current_individual.fitness))
        return tree.n_evaluations >= self.evals or tree.metaepoch_count >= self.metaepochs

    def __str__(self):
        return f"UserGSC({self.evals},{self.metaepochs})"


# ---------------------------------------------------------------- spec generation
def rand_spec(rng, **force):
    from . import focus as _focus

    fc = _focus.get()  # change-directed generation: inactive (no extra draws) on the recorded source
    nlev = int(force.get("nlev", rng.choice([1, 2, 2, 2, 3, 3, 3, 4])))
    if fc.active and fc.sprout and "nlev" not in force and rng.random() < 0.5:
        nlev = 3
    d = int(force.get("dim", rng.integers(2, 4)))
    if rng.random() < 0.3:
        bounds = [[-0.1, 0.2], [-0.3, 0.6], [0.1, 0.7]][:d]
    else:
        lo = rng.uniform(-5, 0, d)
        hi = lo + rng.uniform(2, 9, d)
        bounds = [[float(a), float(b)] for a, b in zip(lo, hi)]
    scale = float(np.mean([b[1] - b[0] for b in bounds]))
    maximize = bool(force.get("maximize", rng.random() < 0.35))
    objective = force.get("objective", str(rng.choice(["four", "four", "plateau0", "sphere", "penalty", "offset"])))
    hib = bool(force.get("hibernation", rng.random() < 0.3))
    if fc.active and fc.tree and "hibernation" not in force and rng.random() < 0.3:
        hib = True

    def lsc():
        c = int(rng.integers(0, 7))
        return [
            {"kind": "DontStop"},
            {"kind": "MetaepochLimit", "limit": int(rng.integers(1, 5))},
            {"kind": "FitnessSteadiness", "max_deviation": float(rng.choice([0.01, 0.5, 5.0])), "n_metaepochs": int(rng.integers(1, 4))},
            {"kind": "AllChildrenStopped"},
            {"kind": "User", "after": int(rng.integers(1, 5)), "numpy_bool": bool(rng.random() < 0.7)},
            {"kind": "DontStop"},
            {"kind": "MetaepochLimit", "limit": int(rng.integers(2, 6))},
        ][c]

    levels = []
    for lvl in range(nlev):
        last = lvl == nlev - 1
        pool = ENGINES_ROOT if lvl == 0 else (ENGINES_LEAF if last else ENGINES_MID)
        pool = force.get("engines", {}).get(lvl, pool) if isinstance(force.get("engines"), dict) else pool
        k = str(rng.choice(pool))
        if fc.active and fc.engines and rng.random() < 0.5:
            fav = [e for e in fc.engines if e in pool]
            if fav:
                k = str(rng.choice(fav))
        L = {"engine": k, "generations": int(rng.integers(force.get("min_generations", 1), max(4, force.get("min_generations", 1) + 2))), "pop_size": int(rng.integers(5, 13)), "lsc": lsc(),
             # child populations are sampled around the seed with this standard deviation: small, of the
             # order of the box, and several box widths (rejection sampling against the box must hold, C01)
             "sample_std_dev": float(rng.choice([0.1, 0.1, 0.1, 0.5, 2.0])) * scale}
        if isinstance(force.get("lsc"), dict) and lvl in force["lsc"]:
            L["lsc"] = force["lsc"][lvl]
        if k in ("sea", "seax", "ga", "adapt", "mwea", "xsea"):
            L["k_elites"] = int(rng.integers(1, 3))
            L["mutation_std"] = 0.15 * scale
            L["p_mutation"] = float(rng.choice([1.0, 1.0, 0.6]))
            if "p_mutation" in force:
                L["p_mutation"] = float(force["p_mutation"])
            if k == "mwea":
                L["pop_size"] = max(L["pop_size"], 10)
                # committee sizes that divide the population size and ones that do not
                L["k_elites"] = [1, 2, 3, 4][L["pop_size"] % 4]
        if k == "sobol":
            L["pop_size"] = 8
        if k == "de":
            L["scaling"] = float(rng.choice([0.8, 0.8, 0.5, 1.7, 2.0]))
            L["crossover"] = float(rng.choice([0.9, 0.9, 0.5, 1.0]))
        if k in ("cma", "cmaw", "cmas"):
            L["sigma0"] = 0.1 * scale if k == "cma" else None
        if k == "local":
            L["lsc"] = {"kind": "DontStop"}
            L["maxiter"] = int(rng.integers(2, 8))
            # scipy methods that take bounds; the derivative-free ones may ask for the same point twice
            # (BFGS / CG ignore the bounds scipy is given: the deme's own clipping is all there is; SLSQP may
            # return a point it never reported to the callback.  COBYLA is left out of the random mix: its
            # callback reports points one ulp away from the ones it evaluated (PRIMA's internal scaling), which
            # pyhms records as they come — see DESIGN.md §3; it has a slice of its own in the C02 check)
            L["method"] = str(rng.choice(["L-BFGS-B", "L-BFGS-B", "Nelder-Mead", "Powell", "BFGS", "CG", "SLSQP", "SLSQP"]))
            if force.get("local_methods"):
                L["method"] = str(force["local_methods"][int(L["maxiter"]) % len(force["local_methods"])])
        levels.append(L)
    limit = int(rng.integers(1, 5))
    sk = int(rng.integers(0, 7))
    if sk <= 1:
        sprout = {"kind": "nbc", "gen_dist_factor": float(rng.uniform(1, 3)), "trunc_factor": float(rng.choice([0.7, 0.8, 1.0])), "fil_dist_factor": float(rng.uniform(0.3, 3)), "level_limit": limit}
    elif sk <= 3:
        sprout = {"kind": "simple", "far_enough": float(rng.uniform(0.02, 0.3)) * scale, "level_limit": limit}
    else:
        sprout = {
            "kind": "custom",
            "generator": str(rng.choice(["best", "nbc", "nbc_local"])),
            "gen_dist_factor": float(rng.uniform(1, 2.5)),
            "trunc_factor": float(rng.choice([0.7, 1.0])),
            "deme_filters": [f for f in ["nbcfar", "far", "demelimit"] if rng.random() < 0.6],
            "far_enough": float(rng.uniform(0.02, 0.2)) * scale,
            "fil_dist_factor": float(rng.uniform(0.3, 2)),
            "norm_ord": int(rng.choice([1, 2])),
            "check_only_active": bool(rng.random() < 0.5),
            "deme_limit": int(rng.integers(1, 4)),
            "tree_filters": (["skipsame"] if rng.random() < 0.4 else []) + ["levellimit"] + (["skipsame"] if rng.random() < 0.2 else []),
            "level_limit": limit,
        }
    if "sprout" in force:
        sprout = force["sprout"]
    if objective == "penalty" and any(L["engine"] == "local" for L in levels) and not force.get("allow_penalty_local"):
        # L-BFGS-B produces NaN iterates once the objective returned +-inf (known finding D18):
        # that combination is replayed as a fixed witness by the C01 check, not generated at random
        objective = "four"
    if sprout.get("generator") == "nbc_local" and nlev < 2:
        sprout["generator"] = "nbc"  # NBCGeneratorWithLocalMethod needs a level above the leaves
    gk = int(rng.integers(0, 9))
    gsc = [
        {"kind": "MetaepochLimit", "limit": int(rng.integers(2, 9))},
        {"kind": "SingularProblemEvalLimitReached", "limit": int(rng.integers(40, 600))},
        {"kind": "FitnessEvalLimitReached", "limit": int(rng.integers(40, 600)), "weights": str(rng.choice(["root", "equal", "list"]))},
        {"kind": "NoActiveNonrootDemes", "n": int(rng.integers(0, 3))},
        {"kind": "AllStopped"},
        {"kind": "RootStopped"},
        {"kind": "SingularProblemPrecisionReached", "precision": float(rng.choice([0.05, 0.5]))},
        {"kind": "User", "evals": int(rng.integers(60, 500)), "metaepochs": int(rng.integers(3, 9)), "look": bool(rng.random() < 0.6)},
        {"kind": "MetaepochLimit", "limit": int(rng.integers(3, 10))},
    ][gk]
    if "gsc" in force:
        gsc = force["gsc"]
    spec = {
        "dim": d,
        "bounds": bounds,
        "maximize": maximize,
        "objective": objective,
        "levels": levels,
        "gsc": gsc,
        "sprout": sprout,
        "hibernation": hib,
        "seed": int(rng.integers(1, 10**6)),
        "shared_problem": bool(rng.random() < 0.5),
        "cutoff": (int(rng.integers(30, 400)) if rng.random() < 0.15 else None),
        "stats_wrapper": bool(rng.random() < 0.2),
        "level_shift": bool(rng.random() < 0.5),
        "max_steps": int(force.get("max_steps", 12)),
        "precision_wrapper": (float(rng.choice([0.05, 0.5])) if rng.random() < 0.15 else None),
    }
    for k in ("shared_problem", "level_shift", "cutoff", "stats_wrapper", "hibernation", "use_cache", "precision_wrapper"):
        if k in force:
            spec[k] = force[k]
    if gsc["kind"] == "SingularProblemPrecisionReached":
        spec["shared_problem"] = True
    # one run in six is preceded by another tree driven by the same sprout mechanism object (derived from the
    # seed, not drawn: the random stream of the generator stays what it was)
    spec["prior_tree"] = bool(force.get("prior_tree", spec["seed"] % 6 == 0))
    if force.get("prior_gsc"):
        spec["prior_gsc"] = True
    return spec


# ---------------------------------------------------------------- building the real objects
def build(spec, run, plain=None, reuse_sm=None):
    """plain: None = recording objective tied to `run`; "callable" / "lambda" = untraced, picklable objectives;
    reuse_sm: a sprout mechanism object that already served another tree (a user reusing a configured mechanism)"""
    import pyhms
    from pyhms import config as C
    from pyhms.core import problem as P
    from pyhms.demes.single_pop_eas import sea as S
    from pyhms.sprout import sprout_filters as F
    from pyhms.sprout import sprout_generators as G
    from pyhms.sprout.sprout_mechanisms import SproutMechanism, get_NBC_sprout, get_simple_sprout
    from pyhms.stop_conditions import gsc as GS
    from pyhms.stop_conditions import lsc as LS
    from pyhms.stop_conditions import usc as US

    bounds = np.array(spec["bounds"], dtype=float)
    nlev = len(spec["levels"])
    # optional: a box of its own per level (monitor-only slices: the model and the box monitors read spec["bounds"])
    level_bounds = [np.array(b, dtype=float) for b in spec["level_bounds"]] if spec.get("level_bounds") else [bounds] * nlev
    recs, probs, fps = [], [], []
    precision_problem = None

    def mk_problem(level):
        nonlocal precision_problem
        if plain is None:
            r = Rec(make_objective(spec, level), level, run)
            fn = r
        else:
            r = CountingObjective(spec, level)
            fn = r if plain == "callable" else (lambda x, _r=r: _r(x))
        fp = P.FunctionProblem(fn, bounds=level_bounds[level], maximize=spec["maximize"], use_cache=bool(spec.get("use_cache")))
        p = fp
        if spec.get("cutoff"):
            p = P.EvalCutoffProblem(p, spec["cutoff"])
        if spec["gsc"]["kind"] == "SingularProblemPrecisionReached":
            opt = 0.0
            p = P.PrecisionCutoffProblem(p, opt, spec["gsc"]["precision"])
            precision_problem = p
        elif spec.get("precision_wrapper"):
            # a precision wrapper in the stack although the stop condition does not read it (its ETA is the user's)
            p = P.PrecisionCutoffProblem(p, 0.0, spec["precision_wrapper"])
        if spec.get("stats_wrapper"):
            p = P.StatsGatheringProblem(p)
        return r, fp, p

    if spec["shared_problem"]:
        r, fp, p = mk_problem(0)
        recs, fps, probs = [r] * nlev, [fp] * nlev, [p] * nlev
    else:
        for lvl in range(nlev):
            r, fp, p = mk_problem(lvl)
            recs.append(r)
            fps.append(fp)
            probs.append(p)

    def mk_lsc(s):
        k = s["kind"]
        if k == "DontStop":
            return US.DontStop()
        if k == "DontRun":
            return US.DontRun()
        if k == "MetaepochLimit":
            return US.MetaepochLimit(s["limit"])
        if k == "FitnessSteadiness":
            return LS.FitnessSteadiness(s["max_deviation"], s["n_metaepochs"])
        if k == "AllChildrenStopped":
            return LS.AllChildrenStopped()
        if k == "User":
            return UserLSC(s["after"], s.get("numpy_bool", True))
        raise ValueError(k)

    from pyhms.demes.de_deme import DEDeme
    from pyhms.demes.ea_deme import EADeme

    class UserEAConfig(C.EALevelConfig):
        pass

    class UserEADeme(EADeme):
        pass

    class UserDEConfig(C.BaseLevelConfig):
        def __init__(self, pop_size, problem, lsc, generations, sample_std_dev):
            super().__init__(problem, lsc)
            self.pop_size = pop_size
            self.generations = generations
            self.sample_std_dev = sample_std_dev
            self.dither = False
            self.scaling = 0.8
            self.crossover = 0.9

    class UserDEDeme(DEDeme):
        pass

    custom = {UserEAConfig: UserEADeme, UserDEConfig: UserDEDeme}
    levels = []
    for lvl, L in enumerate(spec["levels"]):
        k = L["engine"]
        lsc = mk_lsc(L["lsc"])
        p = probs[lvl]
        if k == "xsea":
            levels.append(UserEAConfig(ea_class=S.SEA, generations=L["generations"], problem=p, pop_size=L["pop_size"], lsc=lsc, mutation_std=L["mutation_std"], sample_std_dev=L["sample_std_dev"], k_elites=L["k_elites"], p_mutation=L.get("p_mutation", 1.0)))
            continue
        if k == "xde":
            levels.append(UserDEConfig(L["pop_size"], p, lsc, L["generations"], L["sample_std_dev"]))
            continue
        if k in ("sea", "seax", "ga", "adapt", "mwea"):
            cls = {"sea": S.SEA, "seax": S.SEAWithCrossover, "ga": S.GAStyleSEA, "adapt": S.SEAWithAdaptiveMutation, "mwea": S.MWEA}[k]
            kw = dict(mutation_std=L["mutation_std"], sample_std_dev=L["sample_std_dev"], k_elites=L["k_elites"], p_mutation=L.get("p_mutation", 1.0))
            if k == "adapt":
                kw["mutation_std_step"] = 0.01
            if k == "mwea":
                kw["election_group_size"] = 5
            levels.append(C.EALevelConfig(ea_class=cls, generations=L["generations"], problem=p, pop_size=L["pop_size"], lsc=lsc, **kw))
        elif k in ("de", "ded"):
            levels.append(C.DELevelConfig(generations=L["generations"], problem=p, pop_size=L["pop_size"], lsc=lsc, dither=(k == "ded"), sample_std_dev=L["sample_std_dev"], scaling=L.get("scaling", 0.8), crossover=L.get("crossover", 0.9)))
        elif k == "shade":
            levels.append(C.SHADELevelConfig(generations=L["generations"], problem=p, pop_size=L["pop_size"], memory_size=4, lsc=lsc, sample_std_dev=L["sample_std_dev"]))
        elif k == "lhs":
            levels.append(C.LHSLevelConfig(problem=p, pop_size=L["pop_size"], lsc=lsc))
        elif k == "sobol":
            levels.append(C.SobolLevelConfig(problem=p, pop_size=L["pop_size"], lsc=lsc))
        elif k == "cma":
            levels.append(C.CMALevelConfig(generations=L["generations"], problem=p, sigma0=L["sigma0"], lsc=lsc))
        elif k == "cmaw":
            levels.append(C.CMALevelConfig(generations=L["generations"], problem=p, sigma0=None, lsc=lsc))
        elif k == "cmas":
            levels.append(C.CMALevelConfig(generations=L["generations"], problem=p, sigma0=None, set_stds=True, lsc=lsc))
        elif k == "local":
            levels.append(C.LocalOptimizationConfig(problem=p, lsc=lsc, method=L.get("method", "L-BFGS-B"), maxiter=L["maxiter"]))
        else:
            raise ValueError(k)

    s = spec["sprout"]
    if s["kind"] == "nbc":
        sm = get_NBC_sprout(gen_dist_factor=s["gen_dist_factor"], trunc_factor=s["trunc_factor"], fil_dist_factor=s["fil_dist_factor"], level_limit=s["level_limit"])
    elif s["kind"] == "simple":
        sm = get_simple_sprout(s["far_enough"], level_limit=s["level_limit"])
    else:
        class EveryThird(G.SproutCandidatesGenerator):
            """a user-defined candidate generator (monitor-only runs: the model does not know it): every third
            individual of each active non-leaf deme's current population, in population order (NOT ranked)"""

            def __call__(self, tree):
                from pyhms.sprout.sprout_candidates import DemeCandidates, DemeFeatures

                return {deme: DemeCandidates(individuals=list(deme.current_population[::3]), features=DemeFeatures()) for level in tree.levels[:-1] for deme in level if deme.is_active}

        gen = {"best": G.BestPerDeme, "nbc": lambda: G.NBC_Generator(s["gen_dist_factor"], s["trunc_factor"]), "nbc_local": lambda: G.NBCGeneratorWithLocalMethod(s["gen_dist_factor"], s["trunc_factor"]), "user": EveryThird}[s["generator"]]()
        dfs = []
        for f in s["deme_filters"]:
            if f == "nbcfar" and s["generator"] != "best":
                dfs.append(F.NBC_FarEnough(s["fil_dist_factor"], s["norm_ord"], s["check_only_active"]))
            elif f == "far":
                dfs.append(F.FarEnough(s["far_enough"], s["norm_ord"]))
            elif f == "demelimit":
                dfs.append(F.DemeLimit(s["deme_limit"]))
            elif f == "mahalanobis":  # monitor-only runs: the model does not know this filter
                dfs.append(F.MahalanobisFarEnough(s.get("percentile", 0.95)))
        tfs = []
        for f in s["tree_filters"]:
            tfs.append(F.SkipSameSprout() if f == "skipsame" else F.LevelLimit(s["level_limit"]))
        sm = SproutMechanism(gen, dfs, tfs)
    if reuse_sm is not None:
        sm = reuse_sm

    g = spec["gsc"]
    gk = g["kind"]
    if gk == "MetaepochLimit":
        gsc = US.MetaepochLimit(g["limit"])
    elif gk == "DontRun":
        gsc = US.DontRun()
    elif gk == "SingularProblemEvalLimitReached":
        gsc = GS.SingularProblemEvalLimitReached(g["limit"])
    elif gk == "FitnessEvalLimitReached":
        w = {"root": GS.WeightingStrategy.ROOT, "equal": GS.WeightingStrategy.EQUAL, "list": [1.0, 0.5, 0.25, 0.125][:nlev]}[g["weights"]]
        gsc = GS.FitnessEvalLimitReached(g["limit"], weights=w)
    elif gk == "NoActiveNonrootDemes":
        gsc = GS.NoActiveNonrootDemes(g["n"])
    elif gk == "AllStopped":
        gsc = GS.AllStopped()
    elif gk == "RootStopped":
        gsc = GS.RootStopped()
    elif gk == "SingularProblemPrecisionReached":
        gsc = GS.SingularProblemPrecisionReached(precision_problem)
    elif gk == "User":
        gsc = UserGSC(g["evals"], g["metaepochs"], g.get("look", False))
    else:
        raise ValueError(gk)
    return dict(levels=levels, gsc=gsc, sm=sm, recs=recs, probs=probs, fps=fps, bounds=bounds, custom=custom)


# ---------------------------------------------------------------- snapshots
def ind_t(ind):
    return (tuple(float(t) for t in ind.genome), float(ind.fitness))


def snap_deme(d, full=True):
    hist = d.history
    out = {
        "id": d.id,
        "level": d.level,
        "cls": type(d).__name__,
        "started_at": d.started_at,
        "active": bool(d.is_active),
        "hib": bool(getattr(d, "_hibernating", False)),
        "n_evals": int(d.n_evaluations),
        "children": [c.id for c in d.children],
        "seed": ind_t(d._sprout_seed) if getattr(d, "_sprout_seed", None) is not None else None,
        "metaepochs": int(d.metaepoch_count),
        "ngens": len(hist),
    }
    if full:
        out["hist"] = [[ind_t(i) for i in g] for g in hist]
        out["digest"] = [hashlib.sha1(repr([ind_t(i) for i in g]).encode()).hexdigest()[:12] for g in hist]
    return out


def snap_report(tree):
    """the structured content of the real `summary()` (which embeds `tree()`), parsed from the text:
    header counts, per-level counts ('-' = "No demes available."), one record per displayed deme line"""
    from . import monitors as M  # lazy: monitors imports this module

    try:
        text = tree.summary()
    except Exception as e:  # e.g. no individual anywhere yet
        return {"raised": type(e).__name__}
    ps = M.parse_summary(text)
    lines = []
    for ln in M.parse_tree(text.split("\n\n")[-1]):
        if "raw" in ln:
            lines.append(("?", ln["raw"][:40], "?", "?"))
        else:
            lines.append((ln["id"], ln["cls"], ln["evals"], 1 if ln["mark"].strip() else 0))
    return {
        "metaepoch": ps["metaepoch"],
        "evals": ps["evals"],
        "demes": ps["demes"],
        "levels": ["-" if lv["none"] else f"{lv['evals']}/{lv['demes']}" for lv in ps["levels"]],
        "lines": lines,
    }


def snap_tree(tree, order, full=True):
    demes = {d.id: d for _, d in tree.all_demes}
    ids = [i for i in order if i in demes] + [i for i in demes if i not in order]
    # the deme records are read before the report is rendered, and once more after it: rendering
    # summary() / tree() must not change them (C20)
    before = [snap_deme(demes[i], full) for i in ids]
    report = snap_report(tree) if full else None
    side_effect = bool(full) and [snap_deme(demes[i], full) for i in ids] != before
    return {
        "metaepoch": int(tree.metaepoch_count),
        "n_evals": int(tree.n_evaluations),
        "levels": [[d.id for d in lv] for lv in tree.levels],
        "report": report,
        "demes": before,
        "report_side_effect": side_effect,
    }


# ---------------------------------------------------------------- the traced run
class Runaway(RuntimeError):
    pass


class Run:
    def __init__(self, spec):
        self.spec = spec
        self.ev = []  # event list
        self.who = None  # deme currently running / being created
        self.snaps = []  # boundary snapshots (after construction, after every step)
        self.order = []  # deme ids in creation order
        self.tree = None
        self.gsc_log = []  # (index into ev, who, verdict)
        self.lsc_after = {}  # index of a RUN_END event -> verdict of the (pure, shipped) LSC on the state the run left
        self.error = None
        self.objs = None
        self.steps = 0
        self.rounds = []  # per sprouting round: dict(stage records)
        self.deme_objs = {}
        self.engine_cases = []  # (driver line, expected answer, SHADE archive) per recorded engine generation
        self.record_engines = False

    # -- wrappers -------------------------------------------------------------------------
    def _wrap_gsc(self, inner):
        run = self

        class G:
            def __init__(self):
                self.inner = inner

            def __call__(self, tree):
                v = self.inner(tree)
                d = run.deme_objs.get(run.who)
                run.ev.append(("GSC", run.who, bool(v), int(tree.metaepoch_count), None if d is None else int(d.n_evaluations), getattr(self.inner, "last_user", None)))
                run.gsc_log.append((len(run.ev) - 1, run.who, bool(v)))
                if run.on_gsc:
                    run.on_gsc(tree, bool(v))
                return v

            def __str__(self):
                return str(self.inner)

        return G()

    def _wrap_lsc(self, inner, level):
        run = self

        class L:
            def __init__(self):
                self.inner = inner

            def __call__(self, deme):
                v = self.inner(deme)
                run.ev.append(("LSC", deme.id, bool(v), type(inner).__name__))
                return v

            def __str__(self):
                return str(self.inner)

        return L()

    @staticmethod
    def _cands(c):
        out = {}
        for deme, dc in c.items():
            nm = dc.features.nbc_mean_distance
            out[deme.id] = {"inds": [ind_t(i) for i in dc.individuals], "nbc_mean": (None if (nm is None or nm != nm) else float(nm))}  # NaN -> None
        return out

    def _wrap_mechanism(self, sm):
        run = self

        def wrap(stage, name):
            class W(type(stage)):
                def __init__(self):  # noqa
                    pass

                def __call__(self, *a):
                    rec = {"stage": name, "cls": type(stage).__name__}
                    if len(a) == 2:
                        rec["in"] = Run._cands(a[0])
                    out = stage(*a)
                    rec["out"] = Run._cands(out)
                    run.rounds[-1]["stages"].append(rec)
                    return out

            w = W()
            w.__dict__.update(stage.__dict__)
            return w

        sm.candidates_generator = wrap(sm.candidates_generator, "generator")
        sm.deme_filter_chain = [wrap(f, "deme") for f in sm.deme_filter_chain]
        sm.tree_filter_chain = [wrap(f, "tree") for f in sm.tree_filter_chain]
        og = sm.get_seeds

        def gs(tree):
            run.ev.append(("ROUND_BEGIN", int(tree.metaepoch_count)))
            run.rounds.append({"metaepoch": int(tree.metaepoch_count), "stages": [], "pre": snap_tree(tree, run.order, full=False), "pre_pops": {d.id: [ind_t(i) for i in d.current_population] for _, d in tree.all_demes}, "pre_centroids": {d.id: (None if d.centroid is None else [float(t) for t in d.centroid]) for _, d in tree.all_demes}})
            r = og(tree)
            run.rounds[-1]["env"] = round_env(run, tree)
            run.rounds[-1]["seeds"] = {d.id: [ind_t(i) for i in c.individuals] for d, c in r.items()}
            run.ev.append(("ROUND_END", {d.id: len(c.individuals) for d, c in r.items()}))
            return r

        sm.get_seeds = gs
        return sm

    def _wrap_engine(self, d):
        """every generation a DE / SHADE / SEA-family deme makes in this run is also a case of the engine-level
        correspondence: the engine's `run` is executed under the recorder of NumPy's generator functions and the
        driver line + expected answer are kept (`self.engine_cases`); the model has to reproduce the generation
        bit for bit (harness/engine.py)"""
        if not getattr(self, "record_engines", False):
            return
        from . import engine as E

        box = [tuple(float(t) for t in b) for b in self.spec["bounds"]]
        mx = bool(self.spec["maximize"])
        run = self
        eng, which = None, None
        if hasattr(d, "_de"):
            eng = d._de
            which = 1 if type(eng._mutation).__name__ == "BinaryMutationWithDither" else 0
        elif hasattr(d, "_shade"):
            eng, which = d._shade, 2
        elif hasattr(d, "_ea") and type(d._ea).__name__ in ("SEA", "SEAWithCrossover", "GAStyleSEA", "SEAWithAdaptiveMutation"):
            eng, which = d._ea, "sea"
        if eng is None or getattr(eng, "_verif_wrapped", False):
            return
        orig = eng.run

        def wrapped(parents, **kw):
            if len(run.engine_cases) >= 60:
                return orig(parents, **kw)
            try:
                eng.run = orig
                if which == "sea":
                    new, line, expect, meta = E.traced_sea_generation(eng, parents, box, mx, kw)
                    run.engine_cases.append((line, expect, None))
                else:
                    new, line, expect, extra, _ = E.traced_de_generation(eng, which, parents, box, mx, kw=kw)
                    run.engine_cases.append((line, expect, extra))
                return new
            finally:
                eng.run = wrapped

        eng.run = wrapped
        eng._verif_wrapped = True

    # -- execution ----------------------------------------------------------------------------
    def execute(self, on_boundary=None, on_gsc=None):
        import pyhms.tree as T
        from pyhms.config import TreeConfig

        self.on_gsc = on_gsc
        o = build(self.spec, self)
        self.objs = o
        if self.spec.get("prior_tree"):
            # (every other time the earlier tree is also given the very stop-condition object: the shipped
            # conditions are functions of the tree they are asked about)
            prior_tree(self.spec, o["sm"], gsc=o["gsc"] if (self.spec["seed"] % 12 == 0 or self.spec.get("prior_gsc")) else None)
        for lvl, lc in enumerate(o["levels"]):
            lc.lsc = self._wrap_lsc(lc.lsc, lvl)
        cap = self.spec["max_steps"]
        inner = o["gsc"]

        class Capped:
            """user-level composite: the configured condition OR a metaepoch cap (keeps every run finite).
            The wrapped condition is an attribute, as in a user's own composite: whatever the library does
            with the condition object it was given (copying it included) reaches the wrapped one."""

            def __init__(self, inner, cap):
                self.inner = inner
                self.cap = cap
                self.last_user = None

            def __call__(self, tree):
                iv = bool(self.inner(tree))
                self.last_user = iv if isinstance(self.inner, UserGSC) else None
                return iv or tree.metaepoch_count >= self.cap

            def __str__(self):
                return f"Capped({self.inner},{self.cap})"

        self.inner_gsc = Capped(inner, cap)
        gsc = self._wrap_gsc(self.inner_gsc)
        sm = self._wrap_mechanism(o["sm"])
        orig_init = T.init_from_config
        run = self

        def init(*a, **k):
            prev = run.who
            run.who = "init:" + k["new_id"]
            run.ev.append(("NEW_BEGIN", k["new_id"], k["target_level"]))
            d = orig_init(*a, **k)
            run.who = prev
            run.order.append(d.id)
            run.deme_objs[d.id] = d
            par = k.get("parent_deme")
            run.ev.append(("NEW", d.id, d.level, None if par is None else par.id, d.started_at, type(d).__name__, None if k.get("sprout_seed") is None else ind_t(k["sprout_seed"]), [ind_t(i) for i in d.current_population], int(d.n_evaluations), None if getattr(d, "_sprout_seed", None) is None else ind_t(d._sprout_seed)))
            rm = d.run_metaepoch

            def run_me(tree, d=d, rm=rm):
                run.who = d.id
                ngen0 = len(d.history)
                run.ev.append(("RUN_BEGIN", d.id, int(d.n_evaluations)))
                rm(tree)
                new_gens = [[ind_t(i) for i in g] for g in d.history[ngen0:]]
                cma_stop = None
                es = getattr(d, "_cma_es", None)
                if es is not None:
                    try:
                        cma_stop = bool(es.stop())
                    except Exception:
                        cma_stop = None
                run.ev.append(("RUN_END", d.id, bool(d.is_active), new_gens, int(d.n_evaluations), cma_stop))
                # the shipped local stop conditions are pure functions of the deme: their verdict on the state
                # run_metaepoch leaves behind is "the LSC at the end of the metaepoch" (C06), whenever the
                # code chose to consult it
                try:
                    lw = d._lsc
                    li = getattr(lw, "inner", None)
                    if type(li).__name__ in ("MetaepochLimit", "FitnessSteadiness", "AllChildrenStopped", "DontStop", "DontRun") and type(d).__name__ != "LocalDeme":
                        run.lsc_after[len(run.ev) - 1] = bool(li(d))
                except Exception:  # noqa: BLE001
                    pass
                run.who = None

            d.run_metaepoch = run_me
            run._wrap_engine(d)
            return d

        T.init_from_config = init
        try:
            opts = {"random_seed": self.spec["seed"], "hibernation": self.spec["hibernation"]}
            tree = T.DemeTree(TreeConfig(o["levels"], gsc, sm, options=opts, config_class_to_deme_class=o["custom"]))
            self.tree = tree
            self.snaps.append(snap_tree(tree, self.order))
            if on_boundary:
                on_boundary(self, tree)
            orig_step = tree.run_step

            def step():
                # the previous boundary: was the (inner, pure) GSC already true there?
                self.ev.append(("STEP", self.steps + 1, bool(self.inner_gsc(tree))))
                if self.steps >= self.spec["max_steps"] + 3:
                    raise Runaway(f"run() started metaepoch {self.steps + 1} although the stop condition has held since metaepoch {self.spec['max_steps']}")
                ret = orig_step()
                self.steps += 1
                self.ev.append(("BOUNDARY", self.steps))
                self.snaps.append(snap_tree(tree, self.order))
                if on_boundary:
                    on_boundary(self, tree)
                return ret

            tree.run_step = step
            try:
                tree.run()
            except Runaway as e:
                self.error = str(e)
            self.ev.append(("RETURN", int(tree.metaepoch_count), bool(self.inner_gsc(tree))))
        finally:
            T.init_from_config = orig_init
        return self


def prior_tree(spec, sm, steps=5, gsc=None):
    """a user reusing one configured sprout mechanism object for several trees of a process: before the tree
    under observation is built, another tree of the same configuration (other seed, objects of its own) is
    driven by the very mechanism object.  Nothing of that earlier tree may show in the later one."""
    import pyhms.tree as T
    from pyhms.config import TreeConfig

    from .common import is_env_crash, run_limit

    spec2 = copy.deepcopy(spec)
    spec2["seed"] = int(spec["seed"]) + 7919
    spec2.pop("prior_tree", None)
    try:
        with run_limit():
            o2 = build(spec2, None, plain="callable", reuse_sm=sm)
            opts = {"random_seed": spec2["seed"], "hibernation": spec2["hibernation"]}
            t = T.DemeTree(TreeConfig(o2["levels"], gsc if gsc is not None else o2["gsc"], sm, options=opts, config_class_to_deme_class=o2["custom"]))
            k = 0
            while not t._gsc(t) and k < steps:
                t.run_step()
                k += 1
    except Exception as e:  # noqa: BLE001 (the earlier tree is only there to leave traces in the mechanism object)
        if not is_env_crash(e):
            pass


def norm_ord_of(spec):
    s = spec["sprout"]
    return s.get("norm_ord", 2) if s["kind"] == "custom" else 2


def round_env(run, tree):
    """NumPy's numerics for one sprouting round (pre-sprout state): per candidate parent the
    pairwise distance matrix of its current population (same call shape as the code), and
    for every generated candidate x every deme of the target level the p-norm distance to
    that deme's centroid as the real accessor returns it."""
    import numpy.linalg as nla

    stages = run.rounds[-1]["stages"]
    env = {"nbc": {}, "dist": []}
    if not stages:
        return env
    gen = stages[0]
    ordn = norm_ord_of(run.spec)
    demes = {d.id: d for _, d in tree.all_demes}
    for did, c in gen["out"].items():
        d = demes[did]
        pop = d.current_population
        if gen["cls"] != "BestPerDeme" and d.is_active and pop:
            G = np.array([i.genome for i in pop], dtype=float)
            mat = [[float(t) for t in np.linalg.norm(G[i] - G, axis=1)] for i in range(len(pop))]
            env["nbc"][did] = {"n": len(pop), "mat": mat, "mean": c["nbc_mean"]}
        if d.level + 1 < len(tree.levels):
            for sib in tree.levels[d.level + 1]:
                cen = sib.centroid
                for g, _ in c["inds"]:
                    dist = None if cen is None else float(nla.norm(np.array(g) - cen, ord=ordn))
                    env["dist"].append((g, sib.id, dist, None if cen is None else [float(t) for t in cen]))
    sp = run.spec["sprout"]
    if sp.get("kind") == "custom" and "mahalanobis" in sp.get("deme_filters", []):
        # MahalanobisFarEnough: is a candidate inside the extension of a CMA-ES deme of the target level?
        # (Mahalanobis distance under the strategy's covariance against a chi-squared threshold: numerics of
        # NumPy / SciPy / cma, computed here on private copies of the genomes)
        from pyhms.cluster.cluster import Cluster
        from pyhms.utils.distances import calculate_chi_squared_threshold

        thr = calculate_chi_squared_threshold(percentile=sp.get("percentile", 0.95), dimensions=len(run.spec["bounds"]))
        env["maha"] = []
        for did, c in gen["out"].items():
            d = demes[did]
            if d.level + 1 < len(tree.levels):
                for sib in tree.levels[d.level + 1]:
                    if type(sib).__name__ != "CMADeme":
                        continue
                    cl = Cluster.from_deme(sib)
                    for g, _ in c["inds"]:
                        env["maha"].append((g, sib.id, bool(cl.is_in_extension(np.array(g, dtype=float), thr))))
    return env


def look_at(tree):
    """read every report and query accessor of a tree (what an observer between two metaepochs would do)"""
    def safe(f):
        try:
            return f()
        except Exception:  # noqa: BLE001 (an accessor that raises is none of the observer's business)
            return None

    safe(tree.summary)
    safe(tree.tree)
    safe(lambda: tree.best_individual)
    safe(lambda: tree.all_individuals)
    safe(lambda: tree.r5s_solutions)
    for _, d in tree.all_demes:
        safe(lambda d=d: d.best_individual)
        safe(lambda d=d: d.best_current_individual)
        safe(lambda d=d: d.centroid)
        safe(lambda d=d: d.all_individuals)
        safe(lambda d=d: d.best_fitness_by_metaepoch)


def plain_run(spec, kind="callable", observe=False):
    """untraced run of a spec by stepping (used by twin-run checks); returns the final snapshot.
    observe=True: after construction and after every step all reports / query accessors are read."""
    import pyhms.tree as T
    from pyhms.config import TreeConfig

    o = build(spec, None, plain=kind)
    opts = {"random_seed": spec["seed"], "hibernation": spec["hibernation"]}
    tree = T.DemeTree(TreeConfig(o["levels"], o["gsc"], o["sm"], options=opts, config_class_to_deme_class=o["custom"]))
    if observe:
        look_at(tree)
    steps = 0
    while not tree._gsc(tree) and steps < spec["max_steps"]:
        tree.run_step()
        steps += 1
        if observe:
            look_at(tree)
    snap = snap_tree(tree, [])
    snap["centroids"] = [(d.id, None if d.centroid is None else [float(t) for t in d.centroid]) for _, d in tree.all_demes]
    return snap


def run_spec(spec, **kw):
    return Run(copy.deepcopy(spec)).execute(**kw)


def spec_id(spec):
    return hashlib.sha1(json.dumps(spec, sort_keys=True).encode()).hexdigest()[:10]


def describe(spec):
    return {
        "engines": [L["engine"] for L in spec["levels"]],
        "gsc": spec["gsc"]["kind"],
        "sprout": spec["sprout"]["kind"] + (":" + spec["sprout"].get("generator", "") if spec["sprout"]["kind"] == "custom" else ""),
        "hib": spec["hibernation"],
        "max": spec["maximize"],
        "seed": spec["seed"],
    }


# ---------------------------------------------------------------- monitored batches
def monitored_run(spec, pids):
    """execute one traced run with the callbacks the monitors of `pids` need; returns (run, {pid: [violations]})"""
    from . import monitors as M

    holder = {"run": None, "viol": []}
    h8 = {"run": None, "viol": []}
    s4 = {"viol": [], "prev": None}
    s9 = {"viol": []}
    cb_g = []
    cb_b = []
    if "C03" in pids:
        cb_g.append(M.make_c03_consult(holder))
    if "C08" in pids:
        cb_g.append(M.make_c08_consult(h8))
    h6 = {"run": None, "stops": []}
    if "C06" in pids:
        cb_g.append(M.make_c06_consult(h6))
    if "C04" in pids:
        cb_b.append(M.c04_boundary(s4))
    if "C09" in pids:
        cb_b.append(M.c09_boundary(s9))
    s5 = {"viol": []}
    if "C05" in pids:
        cb_b.append(M.c05_boundary(s5))
    s20 = {"viol": []}
    if "C20" in pids:
        cb_b.append(M.c20_boundary(s20))
    extra_b = []

    def on_gsc(tree, v):
        for f in cb_g:
            f(tree, v)

    def on_boundary(run, tree):
        for f in cb_b + extra_b:
            f(run, tree)

    run = Run(copy.deepcopy(spec))
    holder["run"] = run
    h8["run"] = run
    h6["run"] = run
    cma_log = None
    if "C11" in pids:
        with M.cma_protocol() as cma_log:
            run.execute(on_boundary=on_boundary, on_gsc=on_gsc)
    else:
        run.execute(on_boundary=on_boundary, on_gsc=on_gsc)
    res = {}
    if "C01" in pids:
        res["C01"] = M.c01(run)
    if "C02" in pids:
        res["C02"] = M.c02(run)
    if "C03" in pids:
        # end of run
        on_gsc(run.tree, True)
        res["C03"] = holder["viol"]
    if "C04" in pids:
        res["C04"] = s4["viol"]
    if "C05" in pids:
        res["C05"] = M.c05(run) + s5["viol"]
    if "C06" in pids:
        res["C06"] = [v for v in M.c06(run) if v["signature"].startswith("C06")] + M.c06_cma_stops(run, h6["stops"])
    if "C07" in pids:
        res["C07"] = M.c07(run)
    if "C08" in pids:
        res["C08"] = h8["viol"] + M.c08(run)
    if "C09" in pids:
        res["C09"] = s9["viol"] + M.c09(run)
    if "C10" in pids:
        res["C10"] = M.c10(run)
    if "C11" in pids or "C12" in pids:
        o11, o12 = M.c11_c12(run)
        res["C11"], res["C12"] = o11, o12
        if cma_log is not None:
            res["C11"] = res["C11"] + M.c11_cma(run, cma_log)
    if "C20" in pids:
        res["C20"] = s20["viol"]
        for k, sn in enumerate(run.snaps):
            if sn.get("report_side_effect"):
                res["C20"] = res["C20"] + [M.V("C20/report-changed-state", f"boundary {k}: rendering summary() / tree() changed the recorded state of a deme (histories, genomes, fitness values, counters or flags)")]
                break
    if "C18" in pids:
        res["C18"] = M.c18(run) + [v for v in M.c06(run) if v["signature"].startswith("C18")]
    return run, res


def corpus_specs():
    """minimised past failures / false alarms: they run first in every batch"""
    import os

    p = os.path.join(os.path.dirname(os.path.dirname(os.path.abspath(__file__))), "corpus", "specs.jsonl")
    if not os.path.exists(p):
        return []
    return [json.loads(l)["spec"] for l in open(p) if l.strip()]


def _monitor_worker(args):
    """one traced run under the monitors (runs in a pool process); returns plain data"""
    spec, pid, also = args
    from .common import RunTimeout, run_limit

    try:
        with run_limit():
            run, res = monitored_run(spec, {pid, *also})
    except RunTimeout as e:
        return {"status": "timeout", "detail": str(e)}
    except Exception as e:  # the run itself crashed: report, with the spec as replay
        import traceback

        from .common import is_env_crash

        if is_env_crash(e):
            return {"status": "env", "exc": type(e).__name__}
        return {"status": "crash", "detail": f"{type(e).__name__}: {e}; {traceback.format_exc()[-600:]}"}
    viol, seen = [], set()
    for v in res.get(pid, []):
        if v["signature"] in seen:
            continue
        seen.add(v["signature"])
        viol.append({"signature": v["signature"], "detail": v["detail"]})
    return {"status": "ok", "demes": list(run.order), "steps": run.steps, "rounds": len(run.rounds),
            "calls": sum(1 for e in run.ev if e[0] == "EVAL"), "events": len(run.ev), "viol": viol}


def monitor_batch(ctx, pid, n, salt=11, name=None, force=None, also=()):
    """run `n` random configurations under the monitors of `pid`; returns a Slice"""
    from .common import Slice, pmap

    sl = Slice(name or f"traced-runs-monitor-{pid}")
    sl.is_trace = True
    rng = ctx.rng(salt)
    n = ctx.boost(n) if hasattr(ctx, "boost") else n
    specs = [cs if cs is not None else rand_spec(rng, **(force(rng) if callable(force) else (force or {}))) for cs in corpus_specs() + [None] * n]
    results = pmap(_monitor_worker, [(spec, pid, tuple(also)) for spec in specs], chunksize=2)
    for i, (spec, r) in enumerate(zip(specs, results)):
        if r["status"] == "env":
            sl.skipped += 1
            sl.count("skipped:third-party-library-raised:" + r["exc"])
            continue
        if r["status"] == "crash":
            sl.violations.append({"signature": f"{pid}/run-crashed", "detail": r["detail"], "replay": {"spec": spec}})
            continue
        if r["status"] == "timeout":
            sl.violations.append({"signature": f"{pid}/run-did-not-terminate", "detail": f"a run capped at {spec.get('max_steps')} metaepochs gave {r['detail']} (every generated run takes well under a second)", "replay": {"spec": spec, "describe": describe(spec)}})
            continue
        sl.cases += 1
        d = describe(spec)
        sl.count("engines:" + ">".join(d["engines"]))
        sl.count("gsc:" + d["gsc"])
        sl.count("sprout:" + d["sprout"])
        sl.count("demes", len(r["demes"]))
        sl.count("metaepochs", r["steps"])
        sl.count("rounds", r["rounds"])
        sl.count("objective-calls", r["calls"])
        if len(r["demes"]) >= 2 and r["steps"] >= 2:
            sl.nontrivial.add(spec_id(spec))
        for v in r["viol"]:
            sl.violations.append({"signature": v["signature"], "detail": v["detail"], "replay": {"spec": spec, "describe": d}})
        if i < 2:
            sl.sample({"spec": d, "metaepochs": r["steps"], "demes": r["demes"], "events": r["events"]})
    return sl


NAN_SAFE_ENGINES = ["sea", "seax", "ga", "adapt", "de", "ded", "shade"]


def _nan_monitor_worker(args):
    r = _monitor_worker(args)
    if r["status"] == "crash":
        # with NaN fitness the ordering of individuals is random by design; a sprouting filter that then
        # indexes past its candidate list is not this property's business
        return {"status": "env", "exc": "crash-under-NaN-ordering"}
    return r


def nan_monitor_batch(ctx, pid, n, salt=53, name=None, force=None, keep_precision=False):
    """monitored runs on an objective with NaN holes (NaN is a legal fitness: it is ordered as worst,
    two NaNs by a coin flip).  Monitors only — the model cannot follow a random ordering."""
    from .common import Slice, pmap

    sl = Slice(name or f"traced-runs-monitor-{pid}(objective with NaN holes)")
    sl.is_trace = True
    rng = ctx.rng(salt)
    n = ctx.boost(n) if hasattr(ctx, "boost") else n
    specs = []
    for i in range(n):
        nlev = int(rng.choice([1, 2, 2, 3]))
        kw = dict(objective="holes", nlev=nlev, engines={l: NAN_SAFE_ENGINES for l in range(4)}, max_steps=8)
        kw.update(force(rng) if callable(force) else (force or {}))
        spec = rand_spec(rng, **kw)
        if i % 2:
            spec["nan_slab"] = (0.15, 0.85)
        if spec["gsc"]["kind"] == "SingularProblemPrecisionReached" and not keep_precision:
            spec["gsc"] = {"kind": "MetaepochLimit", "limit": 6}
        specs.append(spec)
    for i, (spec, r) in enumerate(zip(specs, pmap(_nan_monitor_worker, [(spec, pid, ()) for spec in specs], chunksize=2))):
        if r["status"] == "env":
            sl.skipped += 1
            sl.count("skipped:" + r["exc"])
            continue
        if r["status"] == "timeout":
            sl.violations.append({"signature": f"{pid}/run-did-not-terminate", "detail": r["detail"], "replay": {"spec": spec}})
            continue
        sl.cases += 1
        d = describe(spec)
        sl.count("engines:" + ">".join(d["engines"]))
        if len(r["demes"]) >= 2 and r["steps"] >= 2:
            sl.nontrivial.add(spec_id(spec))
        for v in r["viol"]:
            sl.violations.append({"signature": v["signature"], "detail": v["detail"], "replay": {"spec": spec, "describe": d}})
        if i < 1:
            sl.sample({"spec": d, "metaepochs": r["steps"], "demes": r["demes"]})
    return sl


def level_boxes_batch(ctx, pid, n, salt):
    """every level has a box of its own, the deeper one narrower than the parent's: a sprout seed may lie outside
    its child's box.  Whatever the child does about that, the parent's recorded individual keeps its genome and
    its fitness (monitors only)"""
    from .common import Slice, pmap

    rng = ctx.rng(salt)
    n = ctx.boost(n) if hasattr(ctx, "boost") else n
    specs = []
    for _ in range(n):
        spec = rand_spec(rng, nlev=2, engines={0: ["sea", "de", "shade", "ga"], 1: ["sea", "de", "local", "local"]}, objective=str(rng.choice(["four", "sphere"])), shared_problem=False,
                              cutoff=None, precision_wrapper=None, stats_wrapper=False, gsc={"kind": "MetaepochLimit", "limit": int(rng.integers(3, 7))})
        b = spec["bounds"]
        inner = [[lo + 0.25 * (hi - lo) * float(rng.random() < 0.7), hi - 0.25 * (hi - lo) * float(rng.random() < 0.7)] for lo, hi in b]
        spec["level_bounds"] = [b, inner]
        width = float(min(hi - lo for lo, hi in inner))
        for L in spec["levels"]:
            L["sample_std_dev"] = 0.6 * width  # rejection sampling around a seed outside the child's box still terminates
        spec["prior_tree"] = False
        specs.append(spec)
    sl = Slice(f"traced-runs-monitor-{pid}(a box of its own per level, the child's narrower)")
    sl.is_trace = True
    for spec, r in zip(specs, pmap(_monitor_worker, [(spec, pid, ()) for spec in specs], chunksize=2)):
        if r["status"] != "ok":
            sl.skipped += 1
            sl.count("skipped:" + r["status"])
            continue
        sl.cases += 1
        if len(r["demes"]) >= 2:
            sl.nontrivial.add(spec_id(spec))
        for v in r["viol"]:
            if v["signature"].startswith(pid + "/"):
                sl.violations.append({"signature": v["signature"], "detail": v["detail"], "replay": {"spec": spec}})
    return sl


# ---------------------------------------------------------------- minimize() slices
def minimize_shape(f, bounds, N, seed):
    """None if `minimize(f, bounds, maxfun=N)` builds the configuration that `C03.C03_budget_run` talks
    about; otherwise a description of the difference"""
    import importlib

    H = importlib.import_module("pyhms.hms")  # `pyhms.hms` the attribute is the function hms()
    from pyhms.core import problem as P
    from pyhms.stop_conditions import SingularProblemEvalLimitReached

    captured = []
    real = H.DemeTree

    class Stop(Exception):
        pass

    def fake(config):
        captured.append(config)
        raise Stop()

    H.DemeTree = fake
    try:
        try:
            H.minimize(f, bounds, maxfun=N, seed=seed)
        except Stop:
            pass
    finally:
        H.DemeTree = real
    if not captured:
        return "minimize() did not construct a DemeTree"
    cfg = captured[0]
    probs = [lc.problem for lc in cfg.levels]
    if any(p is not probs[0] for p in probs):
        return "levels do not share one problem object"
    p0 = probs[0]
    if type(p0) is not P.EvalCutoffProblem or p0._eval_cutoff != N:
        return f"level problem is {type(p0).__name__} with cutoff {getattr(p0, '_eval_cutoff', None)}, expected EvalCutoffProblem with cutoff {N}"
    if type(p0._inner) is not P.FunctionProblem:
        return f"the cutoff wraps {type(p0._inner).__name__}, expected the bare FunctionProblem"
    if not isinstance(cfg.gsc, SingularProblemEvalLimitReached) or cfg.gsc.limit != N:
        return f"stop condition is {cfg.gsc}, expected SingularProblemEvalLimitReached({N})"
    return None


def minimize_slice(ctx, pid, n, salt=41):
    """budget sweeps of `pyhms.minimize` with a recording objective: nfev == calls <= maxfun (C03),
    fun == min of everything returned and budget-prefix replay (C04), nit == maxiter (C05), x in box (C01)"""
    from pyhms import minimize

    from .common import Slice

    sl = Slice(f"minimize()-budget-sweep-{pid}")
    rng = ctx.rng(salt)
    for i in range(n):
        d = int(rng.integers(2, 4))
        lo = rng.uniform(-5, 0, d)
        hi = lo + rng.uniform(2, 9, d)
        bounds = [(float(a), float(b)) for a, b in zip(lo, hi)]
        shift = rng.uniform(lo, hi)
        seed = int(rng.integers(1, 10**6))

        def make():
            calls = []

            def f(x, calls=calls):
                v = float(np.sum((np.asarray(x) - shift) ** 2))
                calls.append((tuple(float(t) for t in x), v))
                return v

            return f, calls

        n1 = int(rng.choice([1, 2, 7, 15, 16, 17, 25, 40, 90, 150, rng.integers(1, 400)]))
        n2 = n1 + int(rng.integers(1, 200))
        res = []
        for N in (n1, n2):
            f, calls = make()
            try:
                if pid == "C03":
                    # the run-level budget theorem (C03.C03_budget_run) is about trees whose levels all
                    # evaluate through ONE wrapper stack that is the single layer `cutoff N`:
                    # check that this is the tree `minimize(maxfun=N)` builds
                    shape = minimize_shape(f, bounds, N, seed)
                    if shape is not None:
                        sl.disagreements.append({"op": f"minimize(maxfun={N})", "impl": shape, "model": "levels share one EvalCutoffProblem(FunctionProblem(fun), N); stop condition SingularProblemEvalLimitReached(N)"})
                    calls.clear()
                from .common import run_limit

                with run_limit():
                    r = minimize(f, bounds, maxfun=N, seed=seed)
            except Exception as e:  # includes RunTimeout: minimize() did not come back
                sl.violations.append({"signature": f"{pid}/minimize-crashed", "detail": f"minimize(maxfun={N}, seed={seed}) raised {type(e).__name__}: {e}", "replay": {"bounds": bounds, "maxfun": N, "seed": seed}})
                res = None
                break
            res.append((N, r, calls))
        if res is None:
            continue
        sl.cases += 1
        sl.nontrivial.add((seed, n1, n2))
        sl.count("budget<=20" if n1 <= 20 else "budget>20")

        def bad(sig, detail, N):
            sl.violations.append({"signature": sig, "detail": detail, "replay": {"bounds": bounds, "shift": shift.tolist(), "maxfun": N, "seed": seed}})

        for N, r, calls in res:
            if pid == "C03":
                if len(calls) > N:
                    bad("C03/maxfun-exceeded", f"minimize(maxfun={N}) invoked fun {len(calls)} times", N)
                if r.nfev != len(calls):
                    bad("C03/nfev-wrong", f"minimize(maxfun={N}).nfev={r.nfev} but fun was called {len(calls)} times", N)
            if pid == "C04" and calls:
                m = min(v for _, v in calls)
                if r.fun != m:
                    bad("C04/minimize-fun-not-min", f"minimize(maxfun={N}).fun={r.fun} but fun returned {m} at some call", N)
            if pid == "C01":
                if not all(a <= t <= b for t, (a, b) in zip(r.x, bounds)) or any(not all(a <= t <= b for t, (a, b) in zip(x, bounds)) for x, _ in calls):
                    bad("C01/minimize-outside-box", f"minimize(maxfun={N}) evaluated or returned a point outside the box", N)
            if pid == "C02" and calls:
                if r.fun != float(np.sum((np.asarray(r.x) - shift) ** 2)):
                    bad("C02/minimize-fun-not-f-of-x", f"minimize(maxfun={N}): fun={r.fun} is not f(x)", N)
        if pid == "C04":
            (N1, r1, c1), (N2, r2, c2) = res
            if c2[: len(c1)] != c1:
                k = next(j for j in range(min(len(c1), len(c2))) if c1[j] != c2[j]) if len(c2) >= len(c1) else len(c2)
                bad("C04/budget-not-prefix", f"seed {seed}: the calls of maxfun={N1} are not a prefix of the calls of maxfun={N2} (first difference at call {k+1})", N2)
            if r2.fun > r1.fun:
                bad("C04/larger-budget-worse", f"seed {seed}: maxfun={N2} gives fun={r2.fun}, worse than maxfun={N1} with {r1.fun}", N2)
        if pid == "C03":
            # both limits given: whichever binds, the evaluation budget stays hard and nfev exact
            for N, M in ((n1, 1000), (n2, int(rng.integers(1, 4)))):
                f, calls = make()
                try:
                    from .common import run_limit

                    with run_limit():
                        r = minimize(f, bounds, maxfun=N, maxiter=M, seed=seed)
                except Exception as e:  # noqa: BLE001
                    bad("C03/minimize-crashed", f"minimize(maxfun={N}, maxiter={M}, seed={seed}) raised {type(e).__name__}: {e}", N)
                    continue
                if len(calls) > N:
                    bad("C03/maxfun-exceeded", f"minimize(maxfun={N}, maxiter={M}) invoked fun {len(calls)} times", N)
                if r.nfev != len(calls):
                    bad("C03/nfev-wrong", f"minimize(maxfun={N}, maxiter={M}).nfev={r.nfev} but fun was called {len(calls)} times", N)
        if pid == "C05":
            it = int(rng.integers(1, 5))
            f, calls = make()
            r = minimize(f, bounds, maxiter=it, seed=seed)
            if r.nit != it:
                bad("C05/minimize-nit", f"minimize(maxiter={it}).nit={r.nit}", it)
        if i < 2:
            sl.sample({"bounds": bounds, "seed": seed, "maxfun": [n1, n2], "nfev": [res[0][1].nfev, res[1][1].nfev]})
    return sl


class PlainCapped:
    """the composite stop condition every traced run uses (configured condition OR metaepoch cap), without any tracer"""

    def __init__(self, inner, cap):
        self.inner = inner
        self.cap = cap

    def __call__(self, tree):
        return bool(self.inner(tree)) or tree.metaepoch_count >= self.cap

    def __str__(self):
        return f"Capped({self.inner},{self.cap})"


def untraced_twin(spec):
    """the run a traced run stands for, without the tracer: same objects, same composite stop condition, driven by
    the real run(); returns the final snapshot"""
    import pyhms.tree as T
    from pyhms.config import TreeConfig

    o = build(spec, None, plain="callable")
    opts = {"random_seed": spec["seed"], "hibernation": spec["hibernation"]}
    tree = T.DemeTree(TreeConfig(o["levels"], PlainCapped(o["gsc"], spec["max_steps"]), o["sm"], options=opts, config_class_to_deme_class=o["custom"]))
    tree.run()
    return snap_tree(tree, [])
