"""Shared plumbing of the verification harness.

Everything that touches pyhms imports it from /repo's *working tree* (PYTHONPATH is forced
and `pyhms.__file__` asserted) so a check always sees the code as it is now.
"""
import json
import os
import subprocess
import sys
import time
from fractions import Fraction

VERIF = os.path.dirname(os.path.dirname(os.path.abspath(__file__)))
LEAN_DIR = os.path.join(VERIF, "lean")
REPO = os.environ.get("PYHMS_REPO", "/repo")


def use_repo():
    """Make `import pyhms` resolve to REPO's working tree and verify it did."""
    if sys.path[0] != REPO:
        sys.path.insert(0, REPO)
    for m in [m for m in sys.modules if m == "pyhms" or m.startswith("pyhms.")]:
        del sys.modules[m]
    import warnings

    warnings.filterwarnings("ignore")
    import pyhms

    got = os.path.realpath(os.path.dirname(os.path.dirname(pyhms.__file__)))
    if got != os.path.realpath(REPO):
        raise RuntimeError(f"pyhms imported from {got}, expected {REPO}")
    return pyhms


def fr(x) -> str:
    """exact rational text of a finite float / int / Fraction"""
    if isinstance(x, Fraction):
        f = x
    else:
        f = Fraction(float(x))
    return str(f.numerator) if f.denominator == 1 else f"{f.numerator}/{f.denominator}"


def fit(x) -> str:
    """fitness token: finite rational, inf, -inf, nan"""
    x = float(x)
    if x != x:
        return "nan"
    if x == float("inf"):
        return "inf"
    if x == float("-inf"):
        return "-inf"
    return fr(x)


def parse_rat(s: str):
    if s in ("none", "bad-op", "inf", "-inf", "nan"):
        return s
    return Fraction(s)


class DriverError(RuntimeError):
    pass


def run_driver(lines, timeout=1800):
    """Pipe `lines` to the Lean model driver, return its output lines (same length)."""
    if not lines:
        return []
    data = ("\n".join(lines) + "\n").encode()
    p = subprocess.run(
        ["lake", "env", "lean", "--run", "Driver.lean"],
        cwd=LEAN_DIR,
        input=data,
        stdout=subprocess.PIPE,
        stderr=subprocess.PIPE,
        timeout=timeout,
    )
    out = p.stdout.decode().split("\n")
    if out and out[-1] == "":
        out.pop()
    if p.returncode != 0 or len(out) != len(lines):
        raise DriverError(
            f"driver rc={p.returncode} lines in={len(lines)} out={len(out)} stderr={p.stderr.decode()[-2000:]}"
        )
    return out


class Slice:
    """Result of one correspondence slice / monitor pass."""

    def __init__(self, name):
        self.name = name
        self.cases = 0
        self.nontrivial = set()  # hashable descriptors of distinct non-trivial cases
        self.disagreements = []  # model vs implementation (dicts)
        self.violations = []  # monitor hits: dict(signature=, detail=, replay=)
        self.skipped = 0
        self.hist = {}
        self.samples = []

    def count(self, key, n=1):
        self.hist[key] = self.hist.get(key, 0) + n

    def sample(self, s, cap=4):
        if len(self.samples) < cap:
            self.samples.append(s)


def now():
    return time.time()


def jdump(obj, path):
    os.makedirs(os.path.dirname(path), exist_ok=True)
    with open(path, "w") as f:
        json.dump(obj, f, indent=1, default=str)


# ---- individuals on the line protocol ------------------------------------------------------
def ind_tok(genome, fitness) -> str:
    g = [fr(x) for x in genome]
    return f"{len(g)} " + " ".join(g) + " " + fit(fitness)


def inds_tok(pairs) -> str:
    """pairs: iterable of (genome, fitness)"""
    pairs = list(pairs)
    return f"{len(pairs)}" + "".join(" " + ind_tok(g, f) for g, f in pairs)


def pop_pairs(pop):
    """Population -> list of (genome tuple, fitness)"""
    return [(tuple(float(x) for x in g), float(f)) for g, f in zip(pop.genomes, pop.fitnesses)]


def inds_pairs(inds):
    return [(tuple(float(x) for x in i.genome), float(i.fitness)) for i in inds]


def is_env_crash(exc):
    """did the exception originate inside a third-party library (cma, scipy, numpy, ...) rather than
    in pyhms or in the harness?  Such crashes (e.g. an internal assertion of the cma package when it
    is told non-finite values for a whole population) are environment failures: the run is skipped
    and counted, it is neither a disagreement nor a violation."""
    import traceback

    tb = traceback.extract_tb(exc.__traceback__)
    if not tb:
        return False
    last = tb[-1].filename
    return "site-packages" in last and "/pyhms/" not in last


# ------------------------------------------------------------------ process pool
def n_workers():
    try:
        n = int(os.environ.get("VERIF_JOBS", "0"))
    except ValueError:
        n = 0
    if n <= 0:
        n = min(16, os.cpu_count() or 1)
    return max(1, n)


def pmap(fn, items, chunksize=1):
    """order-preserving map over a fork pool (results are independent of scheduling: every item carries
    all the randomness it needs).  `fn` must be a module-level function returning picklable data.
    VERIF_JOBS=1 runs in-process."""
    items = list(items)
    n = n_workers()
    if n == 1 or len(items) < 4:
        return [fn(x) for x in items]
    import multiprocessing as mp

    try:
        ctx = mp.get_context("fork")
        pool = ctx.Pool(processes=min(n, len(items)))
    except (OSError, ValueError, ImportError):  # no semaphores / no fork here: same results, one process
        return [fn(x) for x in items]
    with pool:
        return pool.map(fn, items, chunksize=chunksize)


class RunTimeout(Exception):
    """a single traced run exceeded its wall-clock allowance"""


class run_limit:
    """`with run_limit(seconds):` raises RunTimeout inside the block when it takes longer (SIGALRM; main
    thread of the process only — pool workers and the in-process fallback both qualify).  A run of the
    sizes generated here takes well under a second; one that does not come back is a finding about the
    run (an endless rejection-sampling loop, a run() that never returns), not a reason to hang the check."""

    def __init__(self, seconds=None):
        self.seconds = int(seconds if seconds is not None else os.environ.get("VERIF_RUN_TIMEOUT", "120"))

    def __enter__(self):
        import signal

        self.old = None
        try:
            def _raise(signum, frame):
                raise RunTimeout(f"no result after {self.seconds} s")

            self.old = signal.signal(signal.SIGALRM, _raise)
            signal.alarm(self.seconds)
        except (ValueError, AttributeError):  # not in the main thread / no SIGALRM here
            self.old = None
        return self

    def __exit__(self, *exc):
        import signal

        try:
            signal.alarm(0)
            if self.old is not None:
                signal.signal(signal.SIGALRM, self.old)
        except (ValueError, AttributeError):
            pass
        return False
