"""C10 — Sprout candidates come from the right populations; filters keep the best

Theorems: lean/PyhmsVerif/Props/C10.lean (about the tree model lean/PyhmsVerif/Model/Tree.lean).
Tie to /repo: trace refinement — real runs are re-executed by `Tree.step`, state dumps and
sprout-stage outputs are diffed (harness/refine.py); only disagreements that bear on this
property count.  Direct monitor of the property on the same kind of runs (harness/monitors.py).
"""
from .. import refine, runs

MODULE = 'PyhmsVerif.Props.SproutRun'
THEOREMS = ['C10.gen_sources', 'C10.bestPerDeme_is_best', 'C10.filter_shrinks', 'C10.demeLimit_count', 'C10.demeLimit_best', 'C10.levelLimit_best', 'C10.levelLimit_free_slots', 'C10.levelLimit_no_cut', 'C10.skipSame_iff', 'Sprout.applyFilter_shrinks', 'SproutRun.C10_created_from_generator', 'SproutRun.C10_created_best_per_deme', 'SproutRun.round_creates', 'C10.mahalanobis_iff']
LEVEL = 'proof'
LEVEL_TEXT = 'Theorems for all views, candidate sets, limits, directions and filter compositions: candidates come from non-leaf demes of the tree; BestPerDeme proposes exactly the current best of an active deme; every filter and every chain only removes candidates (sub-multiset per parent); DemeLimit keeps exactly min(limit, n) and no dropped candidate is strictly better than a kept one; LevelLimit keeps exactly the candidates strictly better than the cut-off, at most the free slots, nothing is cut when there is room; SkipSameSprout lets a candidate through iff it is not isclose to an existing seed of the target level. Tie: every stage of every real sprouting round is recomputed by the model and diffed; direct monitor. NEW (run level): C10_created_from_generator — every deme created by a sprouting round has as parent a deme of the view on a non-leaf level and as seed one of the individuals the generator proposed for that parent (filters only remove); C10_created_best_per_deme — with the best-per-deme generator the seed is a member of the parent current population at least as good as every member, and the parent is active. NEW: MahalanobisFarEnough is the sixth filter of the model (its in-extension verdicts are environment): filter_shrinks covers it, mahalanobis_iff says a candidate survives iff no deme of the target level reports it inside its extension; refined against real runs with CMA-ES children.'
LEVEL_NOTE = 'Trusted: Lean kernel + standard axioms; the hand-written tree / sprout model is tied to the code by trace refinement on sampled runs (every run is re-executed by the model; dumps and the output of every stage of the sprout mechanism are diffed); numerical engines, objective values, NumPy distances and user-defined stop-condition verdicts are environment; monitors trusted as failing-input search. LevelLimit fills exactly the free slots under distinct fitness is checked by the monitor and by refinement, stated as two theorems (at most the free slots; no cut when there is room) rather than as an equality.'
TECHNIQUE = "Lean 4 theorems (inductive invariants of the tree machine Tree.step, proved for all configurations and event sequences) tied to the code by trace refinement (Tree.step re-executes real runs; engine generations replayed bit-exactly by the engine model) + direct monitors as failing-input search"
RULE = "case = one traced run of a random configuration (1-3 levels, engine per level from the full list, every shipped GSC/LSC kind plus user-defined ones, both stock sprout mechanisms and user-composed chains, hibernation on/off, both directions, decimal boxes, optional cutoff/precision/stats wrappers, shared or per-level problems); non-trivial = run with >= 2 demes and >= 2 metaepochs; distinct by configuration hash"
ASSUMPTIONS = ["objective is deterministic and never returns NaN", "runs are capped at 12 metaepochs by a user-level composite stop condition"]
FORCE = None
PID = "C10"


def run(ctx):
    return [
        refine.refine_batch(ctx, ctx.size(120, 1500), force=FORCE, pid=PID, name="trace-refinement(Tree.step vs DemeTree.run)"),
        runs.monitor_batch(ctx, PID, ctx.size(250, 3000), force=FORCE),
        # filters that look at demes of other parents / other levels: deep trees, repeated bests
        refine.refine_batch(ctx, ctx.size(40, 400), salt=37, force=_deep_chains, pid=PID, name="trace-refinement(3-level trees, best-per-deme / NBC generators, SkipSameSprout + LevelLimit chains)"),
        # the local-method generator's extra rule: a deme that has just finished offers its best individual
        refine.refine_batch(ctx, ctx.size(40, 400), salt=41, force=_just_finished, pid=PID, name="trace-refinement(NBCGeneratorWithLocalMethod, demes above the leaves finish by their LSC, non-elitist engines)"),
        refine.refine_batch(ctx, ctx.size(30, 300), salt=45, force=_mahalanobis, pid=PID, name="trace-refinement(MahalanobisFarEnough over CMA-ES children)"),
        runs.monitor_batch(ctx, PID, ctx.size(40, 400), salt=43, name="traced-runs-monitor-C10(local-method generator, demes above the leaves finish)", force=_just_finished),
    ]


def _mahalanobis(rng):
    """MahalanobisFarEnough in the chain (CMA-ES demes on the target level): which candidates lie inside a
    strategy's extension is environment, that the filter only drops those — and what the filters after it
    make of the rest — is the model's"""
    from . import c02

    f = c02._mahalanobis(rng)
    f["sprout"]["tree_filters"] = [["levellimit"], ["skipsame", "levellimit"]][int(rng.integers(0, 2))]
    return f


def _just_finished(rng):
    """NBCGeneratorWithLocalMethod offers the best individual *ever* of a deme one level above the
    leaves that stopped in the metaepoch just run.  Non-elitist engines there (MWEA, CMA-ES), so
    that this best is usually not in the last generation; the LSC stops them after 2-4 metaepochs."""
    nlev = int(rng.choice([2, 3, 3]))
    stop = {"kind": "MetaepochLimit", "limit": int(rng.integers(2, 5))}
    if nlev == 2:
        eng = {0: ["mwea", "mwea", "sea"], 1: ["local", "local", "cma", "sea"]}
        lsc = {0: stop}
    else:
        eng = {0: ["sea", "de", "mwea"], 1: ["cma", "cmaw", "mwea", "cma"], 2: ["local", "local", "cma", "sea"]}
        lsc = {1: stop}
    sprout = {
        "kind": "custom",
        "generator": "nbc_local",
        "gen_dist_factor": float(rng.uniform(1, 2.5)),
        "trunc_factor": float(rng.choice([0.7, 1.0])),
        "deme_filters": [f for f in ["far", "demelimit"] if rng.random() < 0.3],
        "far_enough": float(rng.uniform(0.02, 0.1)),
        "fil_dist_factor": float(rng.uniform(0.3, 2)),
        "norm_ord": 2,
        "check_only_active": bool(rng.random() < 0.5),
        "deme_limit": int(rng.integers(1, 3)),
        "tree_filters": ["levellimit"],
        "level_limit": int(rng.integers(2, 6)),
    }
    return {"nlev": nlev, "engines": eng, "lsc": lsc, "sprout": sprout, "min_generations": 2, "gsc": {"kind": "MetaepochLimit", "limit": int(rng.integers(6, 11))}}


def _deep_chains(rng):
    """three levels, population engines with few generations (a deme's best often repeats), user-composed
    chains in which SkipSameSprout and LevelLimit see candidates of several parents on two levels"""
    eng = {0: ["sea", "seax", "de", "shade"], 1: ["sea", "de", "shade", "cma"], 2: ["sea", "de", "cma", "local"]}
    tf = [["skipsame", "levellimit"], ["levellimit", "skipsame"], ["skipsame", "levellimit", "skipsame"]][int(rng.integers(0, 3))]
    sprout = {
        "kind": "custom",
        "generator": str(rng.choice(["best", "best", "nbc"])),
        "gen_dist_factor": float(rng.uniform(1, 2.5)),
        "trunc_factor": float(rng.choice([0.7, 1.0])),
        "deme_filters": [f for f in ["far", "demelimit"] if rng.random() < 0.4],
        "far_enough": float(rng.uniform(0.02, 0.2)),
        "fil_dist_factor": float(rng.uniform(0.3, 2)),
        "norm_ord": 2,
        "check_only_active": bool(rng.random() < 0.5),
        "deme_limit": int(rng.integers(1, 3)),
        "tree_filters": tf,
        "level_limit": int(rng.integers(2, 5)),
    }
    return {"nlev": 3, "engines": eng, "sprout": sprout, "gsc": {"kind": "MetaepochLimit", "limit": int(rng.integers(5, 10))}}


def search(ctx, broken):
    v = runs.monitor_batch(ctx, PID, 150, salt=95, force=_just_finished).violations
    if v:
        return v
    return runs.monitor_batch(ctx, PID, 500, salt=97, force=FORCE).violations


def replay(data):
    spec = data["violation"]["replay"]["spec"]
    _, res = runs.monitored_run(spec, {PID})
    for v in res.get(PID, []):
        print(v["signature"], v["detail"])
    return not res.get(PID)
