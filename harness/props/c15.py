"""C15 — nearest-better clustering returns exactly the defined cluster seeds.

Correspondence: real NearestBetterClustering(...).cluster() / .distances vs the Lean model
`NBC.cluster` (operational, mirrors the code) and `NBC.spec` (declarative definition), over
NumPy's distance matrix (sanity-checked against exact squared distances).
Monitor: independent O(n^2) reference of the definition + metamorphic re-runs (permuted,
translated, scaled, mirrored).
"""
from fractions import Fraction

import numpy as np

from ..common import Slice, fr, inds_tok, run_driver

MODULE = 'PyhmsVerif.Props.C15Full'
THEOREMS = ['C15.cluster_eq_spec', 'C15.assemble_eq_spec', 'C15.better_prefix', 'C15.nbDist_spec', 'NBC.sortDesc_sorted', 'NBC.sortDesc_perm', 'C15.sortLex_perm', 'C15Perm.kept_perm_invariant', 'C15Perm.sorted_inds_eq', 'C15Perm.le_antisymm', 'C15Perm.spec_reindex', 'C15Perm.seeds_perm_invariant']
EXTRA_MODULES = ['PyhmsVerif.Props.C15Perm']
LEVEL = 'proof'
LEVEL_TEXT = 'Theorem C15.cluster_eq_spec (all populations with pairwise distinct genomes, all distance functions, tie patterns, both directions, all distance / truncation factors and means): whatever the model of the code (NBC.cluster: genome-tie-broken stable best-first sort, truncation, slice before the first individual of equal fitness, tie-with-best rule, threshold cut) returns is exactly the declarative set of cluster seeds (NBC.spec) of the kept population for the threshold the code computed; the kept population is best-first and consists of input individuals. Supporting: better_prefix, nbDist_spec, assemble_eq_spec, sort lemmas. Tie: the real clustering is compared with the operational model AND the declarative definition on every case (size 2-60, dim 1-8, clustered/uniform/collinear/tied/converged); independent reference + metamorphic relations (permutation, binary64-exact translation, power-of-two scaling, mirror). PERMUTATION INVARIANCE (Props/C15Perm.lean): kept_perm_invariant — for any two populations that are permutations of each other (any tie pattern, direction, truncation) the kept best-first population the clustering computes on is the same list of individuals: the genome sort followed by the stable fitness sort establishes a total order (strictly better first, equal fitness by lexicographic genome) and a sorted permutation is unique; with cluster_eq_spec the seeds are then the declarative seeds of the same kept population whatever the input order (finding D16 violated exactly this); seeds_perm_invariant — for a distance that depends on genomes only, two populations that are permutations of each other (pairwise distinct genomes) and the same parameters: whenever the clustering is defined on both it returns the same list of seeds (spec_reindex: renaming input positions consistently with the distance function leaves the declarative seed set unchanged).'
LEVEL_NOTE = 'Trusted: Lean kernel + standard axioms; NumPy norms / means are environment (the distance function and the mean are parameters of the theorem), checked against exact squared distances by the harness; threshold decisions closer than 1e-9 relative are skipped by the reference monitor (counted), never by the model comparison, which uses the binary64 values the code used. Invariance under permutation / translation / scaling / mirror is monitored (metamorphic), not proved.'
TECHNIQUE = "differential correspondence with the Lean NBC model + reference definition + metamorphic relations"
RULE = "case = (population, distance_factor, truncation_factor, direction); populations: size 2-60, dim 1-8, clustered / uniform / collinear / tied fitness / converged to 1e-12; non-trivial = more than one seed returned or ties present or truncation active; distinct by content hash"
ASSUMPTIONS = ["genomes pairwise distinct (hypothesis of the property)", "fitness values not NaN"]


def gen_pop(rng):
    n = int(rng.integers(2, 61))
    d = int(rng.integers(1, 9))
    kind = rng.integers(0, 6)
    if kind == 0:
        X = rng.uniform(-5, 5, (n, d))
    elif kind == 1:
        k = int(rng.integers(2, 5))
        cen = rng.uniform(-5, 5, (k, d))
        X = cen[rng.integers(0, k, n)] + rng.normal(0, 0.2, (n, d))
    elif kind == 2:
        dirv = rng.normal(size=d)
        X = np.outer(rng.uniform(-5, 5, n), dirv) + rng.uniform(-1, 1, d)
    elif kind == 3:
        X = rng.uniform(-1, 1, d) + rng.normal(0, 1e-12, (n, d))
    elif kind == 4:
        X = np.round(rng.uniform(-3, 3, (n, d)), 1)
    else:
        X = rng.uniform(-5, 5, (n, d))
    # distinct genomes
    _, idx = np.unique(X, axis=0, return_index=True)
    X = X[np.sort(idx)]
    n = len(X)
    fk = rng.integers(0, 4)
    if fk == 0:
        f = np.sum(X**2, axis=1)
    elif fk == 1:
        f = np.floor(np.sum(np.abs(X), axis=1))  # ties
    elif fk == 2:
        f = rng.integers(0, max(2, n // 3), n).astype(float)  # many ties
    else:
        f = rng.normal(size=n)
    return X, f


def reference(X, f, mx, phi, t):
    """the definition, independently: returns (seed index list best-first, borderline?)"""
    n = len(X)
    key = (-f) if mx else f
    order = sorted(sorted(range(n), key=lambda i: tuple(X[i])), key=lambda i: key[i])  # best first, ties by genome
    m = int(n * t)
    kept = order[:m]
    if m == 0:
        return None, False
    root = kept[0]
    nbd = {}
    for i in kept[1:]:
        if key[i] == key[root]:
            better = [root]
        else:
            better = [j for j in kept if key[j] < key[i]]
        dists = np.linalg.norm(X[i] - X[better], axis=1)
        nbd[i] = float(np.min(dists))
    mean = float(np.mean(list(nbd.values()))) if nbd else 0.0
    thr = mean * phi
    border = any(abs(v - thr) <= 1e-9 * max(abs(thr), 1e-300) for v in nbd.values())
    seeds = [root] + [i for i in kept[1:] if nbd[i] > thr]
    return seeds, border


def cluster_real(X, f, mx, phi, t):
    from pyhms.core.individual import Individual
    from pyhms.core.problem import FunctionProblem
    from pyhms.utils.clusterization import NearestBetterClustering

    prob = FunctionProblem(lambda x: 0.0, bounds=np.array([[-10.0, 10.0]] * X.shape[1]), maximize=mx)
    inds = [Individual(X[i].copy(), prob, float(f[i])) for i in range(len(X))]
    # where the Individual objects come from must not matter: a (mu + lambda) population holds offspring made
    # with `clone()` / `copy` of their parents (shared bookkeeping fields, own genome and fitness)
    import copy
    import zlib

    mode = zlib.crc32(np.ascontiguousarray(X).tobytes()) % 4
    if mode in (1, 3) and len(inds) >= 2:
        for i in range(1, len(inds)):
            src = inds[(i - 1) // 2]
            c = src.clone() if mode == 1 else (copy.copy(src) if i % 2 else copy.deepcopy(src))  # mode 3: copies
            c.genome = X[i].copy()
            c.fitness = float(f[i])
            inds[i] = c
    if mode == 2 and len(inds) >= 4:
        # the same Individual objects were clustered before, in another population (the survivors of an earlier
        # generation): nothing of that may stick to them
        half = [inds[i] for i in range(0, len(inds), 2)]
        try:
            NearestBetterClustering(half, phi, 1.0).cluster()
        except Exception:  # noqa: BLE001 (the earlier clustering is only there to leave traces)
            pass
    nbc = NearestBetterClustering(inds, phi, t)
    seeds = nbc.cluster()
    ids = {id(ind): i for i, ind in enumerate(inds)}
    return [ids[id(s)] for s in seeds], [float(x) for x in nbc.distances]


def exhaustive_cases():
    """small-scope exhaustive enumeration: 3 and 4 individuals at distinct points of {0,1,3,7} (every
    input order), every fitness assignment over {0,1,2} (all tie patterns), both directions,
    two distance factors, with and without truncation"""
    import itertools

    pts = [0.0, 1.0, 3.0, 7.0]
    for n in (3, 4):
        for pos in itertools.permutations(pts, n):
            X = np.array(pos, dtype=float).reshape(n, 1)
            for fs in itertools.product([0.0, 1.0, 2.0], repeat=n):
                f = np.array(fs, dtype=float)
                for mx in (False, True):
                    for phi in (1.0, 2.0):
                        for t in (1.0, 0.7):
                            yield X, f, mx, phi, t


def run_cases(ctx, rng, n_cases, sl, cases=None):
    lines, metas = [], []
    if cases is None:
        def _random_cases():
            for _ in range(n_cases):
                X, f = gen_pop(rng)
                if len(X) < 2:
                    continue
                mx = bool(rng.random() < 0.5)
                phi = float(rng.choice([0.5, 1.0, 2.0, 3.0, 4.0, rng.uniform(0.5, 4)]))
                t = float(rng.choice([1.0, 1.0, 0.7, 0.5, 0.8, rng.uniform(0.05, 1)]))
                yield X, f, mx, phi, t
        cases = _random_cases()
    if rng is None:
        rng = np.random.default_rng(12345)
    for X, f, mx, phi, t in cases:
        n = len(X)
        if int(n * t) == 0:
            sl.skipped += 1
            sl.count("skipped:empty-truncation(IndexError in the code, outside the domain)")
            continue
        try:
            got, dists = cluster_real(X, f, mx, phi, t)
        except Exception as e:
            sl.violations.append({"signature": "C15/crash", "detail": f"cluster() raised {type(e).__name__}: {e}", "replay": {"X": X.tolist(), "f": f.tolist(), "mx": mx, "phi": phi, "t": t}})
            continue
        ref, border = reference(X, f, mx, phi, t)
        viol = None
        if not border and sorted(got) != sorted(ref):
            viol = ("C15/not-the-defined-seeds", f"n={n} d={X.shape[1]} phi={phi} t={t} max={mx}: cluster() returned individuals {sorted(got)}, definition gives {sorted(ref)}")
        # metamorphic relations (skip borderline / cut-tie cases)
        if not border and viol is None:
            perm = rng.permutation(n)
            g2, _ = cluster_real(X[perm], f[perm], mx, phi, t)
            if sorted(int(perm[i]) for i in g2) != sorted(got):
                viol = ("C15/order-dependent", f"result changes under permutation of the input (n={n}, phi={phi}, t={t})")
            c = float(rng.choice([0.5, 2.0, 4.0]))
            sh = np.round(rng.uniform(-3, 3, X.shape[1]))
            g3, _ = cluster_real(c * X, f, mx, phi, t)
            r3, b3 = reference(c * X, f, mx, phi, t)
            if not b3 and sorted(g3) != sorted(got):
                viol = viol or ("C15/scale-dependent", f"result changes under uniform scaling by {c}")
            g4, _ = cluster_real(X + sh, f, mx, phi, t)
            r4, b4 = reference(X + sh, f, mx, phi, t)
            # the relation is about geometry: only translations that are exact in binary64 count
            # (all pairwise distances bit-identical); others perturb a converged population
            Xs = X + sh
            exact = all(np.array_equal(np.linalg.norm(Xs[i] - Xs, axis=1), np.linalg.norm(X[i] - X, axis=1)) for i in range(n))
            if not exact:
                sl.count("translation-not-exact-in-binary64(skipped)")
            if exact and not b4 and sorted(g4) != sorted(got):
                viol = viol or ("C15/translation-dependent", f"result changes under translation by {sh.tolist()}")
            g5, _ = cluster_real(X, -f, not mx, phi, t)
            if sorted(g5) != sorted(got):
                viol = viol or ("C15/direction-dependent", "maximising f and minimising -f give different seeds")
        # model lines
        G = X
        mat = [np.linalg.norm(G[i] - G, axis=1) for i in range(n)]
        mean = float(np.mean(dists)) if dists else None
        flat = " ".join(fr(x) for row in mat for x in row)
        pop = inds_tok([(tuple(float(v) for v in X[i]), float(f[i])) for i in range(n)])
        args = f"{1 if mx else 0} {fr(phi)} {fr(t)} {pop} {flat} {'-' if mean is None else fr(mean)}"
        lines.append("nbc " + args)
        exp_seeds = inds_tok([(tuple(float(v) for v in X[i]), float(f[i])) for i in got])
        exp = exp_seeds + " | " + f"{len(dists)}" + "".join(" " + fr(x) for x in dists)
        lines.append("nbcspec " + args)
        metas.append((exp, exp_seeds, border, viol, n, len(got), len(set(f.tolist())) < n, t < 1.0, {"n": n, "d": int(X.shape[1]), "phi": phi, "t": t, "mx": mx, "seeds": got}))
    out = run_driver(lines)
    for k, (exp, exp_seeds, border, viol, n, ns, ties, trunc, desc) in enumerate(metas):
        g_op, g_spec = out[2 * k], out[2 * k + 1]
        sl.cases += 1
        sl.count("seeds>1" if ns > 1 else "seeds=1")
        if ties:
            sl.count("ties")
        if trunc:
            sl.count("truncated")
        if ns > 1 or ties or trunc:
            sl.nontrivial.add(hash(lines[2 * k]))
        if g_op != exp:
            sl.disagreements.append({"op": lines[2 * k][:1500], "impl": exp[:800], "model": g_op[:800], "desc": desc})
        if g_spec != exp_seeds and not border:
            sl.disagreements.append({"op": "spec: " + lines[2 * k + 1][:1500], "impl": exp_seeds[:800], "model": g_spec[:800], "desc": desc})
        if border:
            sl.skipped += 1
            sl.count("skipped:borderline-threshold-or-tie-across-cut")
        if viol:
            sl.violations.append({"signature": viol[0], "detail": viol[1], "replay": desc})
        if k < 3:
            sl.sample(desc)


def _shared_worker(seed):
    """two seeded trees that share ONE NBC generator object (a user reusing a configured mechanism), stepped
    side by side: whatever the generator answers for a deme must be the clustering of THAT deme's current
    population — compared with the definition (`reference`) on every call"""
    import pyhms.tree as T
    from pyhms.config import TreeConfig

    from .. import runs as R2
    from ..common import RunTimeout, is_env_crash, run_limit

    rng = np.random.default_rng([seed, 77])
    phi = float(rng.choice([1.0, 2.0, 3.0]))
    tf = float(rng.choice([0.7, 1.0]))
    LIMIT = [4, 2, 1, 4][seed % 4]
    sprout = {"kind": "custom", "generator": "nbc", "gen_dist_factor": phi, "trunc_factor": tf, "deme_filters": ["demelimit"], "far_enough": 0.1,
              "fil_dist_factor": 1.0, "norm_ord": 2, "check_only_active": False, "deme_limit": 2, "tree_filters": ["levellimit"], "level_limit": LIMIT}
    eng = {0: ["sea", "de", "shade", "ga"], 1: ["sea", "de", "cma"], 2: ["sea", "de"]}
    specs = [R2.rand_spec(rng, nlev=int(rng.choice([2, 2, 3])), engines=eng, sprout=sprout, objective=str(rng.choice(["four", "sphere", "penalty"])),
                          gsc={"kind": "MetaepochLimit", "limit": 6}, hibernation=bool(rng.random() < 0.5), cutoff=None) for _ in range(2)]
    found = []
    calls = [0]

    class Checking:
        def __init__(self, inner):
            self.inner = inner

        def __call__(self, tree):
            out = self.inner(tree)
            for deme, dc in out.items():
                pop = deme.current_population
                X = np.array([i.genome for i in pop], dtype=float)
                f = np.array([i.fitness for i in pop], dtype=float)
                if len({tuple(x) for x in X.tolist()}) < len(X) or np.any(np.isnan(f)):
                    continue  # (infinite values — a death penalty, an exhausted budget — are ordinary worst values)
                ref, border = reference(X, f, deme._problem.maximize, phi, tf)
                if ref is None or border:
                    continue
                calls[0] += 1
                want = sorted(tuple(X[i].tolist()) for i in ref)
                got = sorted(tuple(float(t) for t in ind.genome) for ind in dc.individuals)
                if got != want and not found:
                    found.append(f"deme {deme.id} (metaepoch {tree.metaepoch_count}): the generator answered {len(got)} individuals {got[:2]}… but the clustering of its current population has the seeds {want[:2]}… ({len(want)})")
            return out

    class Provenance:
        """pass-through around the mechanism's last tree filter: what comes out of the chain is what the tree
        sprouts from — every seed must be an individual of its parent's current population (C07)"""

        def __init__(self, inner):
            self.inner = inner

        def __call__(self, candidates, tree):
            out = self.inner(candidates, tree)
            for deme, dc in out.items():
                pop = {(tuple(float(t) for t in i.genome), float(i.fitness)) for i in deme.current_population}
                for ind in dc.individuals:
                    if (tuple(float(t) for t in ind.genome), float(ind.fitness)) not in pop and not found7:
                        found7.append(f"deme {deme.id} (metaepoch {tree.metaepoch_count}) is about to sprout from {[float(t) for t in ind.genome]}, which is not an individual of its current population")
            return out

    found7 = []
    found8 = []
    try:
        with run_limit():
            trees = []
            shared = None
            for spec in specs:
                o = R2.build(spec, None, plain="callable")
                if shared is None:
                    shared = o["sm"]
                    shared.candidates_generator = Checking(shared.candidates_generator)
                    if shared.tree_filter_chain:
                        shared.tree_filter_chain[-1] = Provenance(shared.tree_filter_chain[-1])
                opts = {"random_seed": spec["seed"], "hibernation": spec["hibernation"]}
                trees.append(T.DemeTree(TreeConfig(o["levels"], o["gsc"], shared, options=opts, config_class_to_deme_class=o["custom"])))
            for _ in range(6):
                for t in trees:
                    if not t._gsc(t):
                        t.run_step()
                        for lv in range(1, len(t.levels)):
                            act = sum(1 for d in t.levels[lv] if d.is_active)
                            if act > LIMIT and not found8:
                                found8.append(f"metaepoch {t.metaepoch_count}: level {lv} of one of the two trees has {act} active demes, the level limit of the shared mechanism is {LIMIT}")
    except RunTimeout as e:
        return {"status": "crash", "detail": f"run did not terminate: {e}"}
    except Exception as e:  # noqa: BLE001
        return {"status": "env" if is_env_crash(e) else "crash", "detail": f"{type(e).__name__}: {e}"}
    return {"status": "ok", "found": found, "found7": found7, "found8": found8, "calls": calls[0]}


def shared_generator(ctx, n, salt, only="C15/"):
    from ..common import pmap

    sl = Slice("one NBC generator object serving two trees stepped side by side (every answer = clustering of that deme's current population)")
    n = ctx.boost(n) if hasattr(ctx, "boost") else n
    base = int(ctx.rng(salt).integers(1 << 30))
    seeds = [base + i for i in range(n)]
    for sd, r in zip(seeds, pmap(_shared_worker, seeds, chunksize=2)):
        if r["status"] == "env":
            sl.skipped += 1
            continue
        if r["status"] == "crash":
            sl.violations.append({"signature": "C15/run-crashed", "detail": r["detail"], "replay": {"seed": sd}})
            continue
        sl.cases += 1
        if r["calls"] >= 4:
            sl.nontrivial.add(sd)
        sl.count("generator-answers-checked", r["calls"])
        for m in r["found"]:
            sl.violations.append({"signature": "C15/answer-for-another-population", "detail": m, "replay": {"seed": sd}})
        for m in r.get("found8", []):
            sl.violations.append({"signature": "C08/level-limit-exceeded(shared mechanism)", "detail": m, "replay": {"seed": sd}})
        for m in r.get("found7", []):
            sl.violations.append({"signature": "C07/seed-not-from-the-parents-population(shared mechanism)", "detail": m, "replay": {"seed": sd}})
    if seeds:
        sl.sample({"seed": seeds[0]})
    sl.violations = [v for v in sl.violations if v["signature"].startswith(only) or v["signature"].endswith("run-crashed")]
    return sl


def run(ctx):
    sl = Slice("NearestBetterClustering-vs-NBC.cluster/NBC.spec")
    run_cases(ctx, ctx.rng(1), ctx.size(400, 6000), sl)
    if ctx.thorough:
        import itertools

        ex = Slice("NBC-exhaustive(n<=4,fitness-in-{0,1,2},all-orders)")
        it = exhaustive_cases()
        while True:
            chunk = list(itertools.islice(it, 4000))
            if not chunk:
                break
            run_cases(ctx, None, 0, ex, cases=chunk)
        return [sl, ex, shared_generator(ctx, 300, 3)]
    return [sl, shared_generator(ctx, 16, 3)]


def search(ctx, broken):
    sl = Slice("search")
    run_cases(ctx, ctx.rng(91), 1500, sl)
    return sl.violations
