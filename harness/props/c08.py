"""C08 — The level limit on simultaneously active demes is never exceeded

Theorems: lean/PyhmsVerif/Props/C08.lean (about the tree model lean/PyhmsVerif/Model/Tree.lean).
Tie to /repo: trace refinement — real runs are re-executed by `Tree.step`, state dumps and
sprout-stage outputs are diffed (harness/refine.py); only disagreements that bear on this
property count.  Direct monitor of the property on the same kind of runs (harness/monitors.py).
"""
from .. import refine, runs

MODULE = "PyhmsVerif.Props.C08"
THEOREMS = ['C08.C08_inv', 'C08.step_inv', 'C08.round_inv', 'C08.C08_round', 'C08.view_activeAt', 'Sprout.levelLimitLevel_bound', 'Sprout.getSeeds_levelLimit', 'Sprout.count_better_le']
LEVEL = 'proof'
LEVEL_TEXT = 'Theorem C08_inv: for every mechanism whose filter chain contains LevelLimit(L) (any position, any other filters), in every state reachable from a fresh tree — every moment of every run, all engines, stop conditions, candidate sets, tie patterns, directions — no non-root level has more than L active demes; the invariant is inductive (step_inv); a round creates per level at most L minus the active demes (C08_round). Tie: trace refinement (activity flags, created demes and the LevelLimit stage output are computed by the model and diffed) + census monitor at every GSC consult and around every round.'
LEVEL_NOTE = 'Trusted: Lean kernel + standard axioms; the hand-written tree / sprout model is tied to the code by trace refinement on sampled runs (every run is re-executed by the model; dumps and the output of every stage of the sprout mechanism are diffed); numerical engines, objective values, NumPy distances and user-defined stop-condition verdicts are environment; monitors trusted as failing-input search.'
TECHNIQUE = "Lean 4 theorems (inductive invariants of the tree machine Tree.step, proved for all configurations and event sequences) tied to the code by trace refinement (Tree.step re-executes real runs; engine generations replayed bit-exactly by the engine model) + direct monitors as failing-input search"
RULE = "case = one traced run of a random configuration (1-3 levels, engine per level from the full list, every shipped GSC/LSC kind plus user-defined ones, both stock sprout mechanisms and user-composed chains, hibernation on/off, both directions, decimal boxes, optional cutoff/precision/stats wrappers, shared or per-level problems); non-trivial = run with >= 2 demes and >= 2 metaepochs; distinct by configuration hash"
ASSUMPTIONS = ["objective is deterministic and never returns NaN", "runs are capped at 12 metaepochs by a user-level composite stop condition"]
FORCE = None
PID = "C08"


def run(ctx):
    return [
        refine.refine_batch(ctx, ctx.size(120, 1500), force=FORCE, pid=PID, name="trace-refinement(Tree.step vs DemeTree.run)"),
        runs.monitor_batch(ctx, PID, ctx.size(250, 3000), force=FORCE),
        # a user-defined candidate generator that hands over several candidates per parent in population order
        # (not ranked), no DemeLimit in front of the level limit: whatever it is offered, LevelLimit never lets
        # more through than there are free slots (monitors only: the model knows the shipped generators)
        runs.monitor_batch(ctx, PID, ctx.size(50, 500), salt=45, name="traced-runs-monitor-C08(user-defined generator, unranked candidates)", force=_user_generator),
        fault_census(ctx, ctx.size(30, 300)),
        _shared_mechanism(ctx),
    ]


def _shared_mechanism(ctx):
    """two trees that share one sprout mechanism object (one LevelLimit), stepped alternately: each tree's levels
    respect the limit"""
    from . import c15

    sl = c15.shared_generator(ctx, 24 if not ctx.thorough else 300, 13, only="C08/")
    sl.name = "one sprout mechanism object serving two trees stepped alternately (level census of both)"
    return sl


def fault_census(ctx, n):
    """the objective fails while a child is being constructed and the run goes on (the C07 fault-injection runs):
    after every step no non-root level has more active demes than the level limit"""
    from ..common import Slice, pmap
    from . import c07

    sl = Slice("objective fails during sprouting; the run goes on (active demes per level after every step)")
    n = ctx.boost(n) if hasattr(ctx, "boost") else n
    rng = ctx.rng(69)
    args = []
    for _ in range(n):
        spec = runs.rand_spec(rng, nlev=int(rng.choice([2, 3])), engines={0: ["sea", "de", "shade", "ga"], 1: ["sea", "de", "shade", "cma"], 2: ["sea", "de", "cma"]},
                              gsc={"kind": "MetaepochLimit", "limit": 8}, max_steps=8, cutoff=None)
        args.append((spec, int(rng.integers(1, 12)), int(rng.integers(1, 12))))
    for (spec, a, b), r in zip(args, pmap(c07._fault_worker, args, chunksize=2)):
        if r["status"] != "ok":
            sl.skipped += 1
            continue
        sl.cases += 1
        if r["faults"]:
            sl.nontrivial.add(runs.spec_id(spec))
        L = spec["sprout"]["level_limit"]
        for k, counts in enumerate(r["census"]):
            over = [(lv, c) for lv, c in enumerate(counts) if lv >= 1 and c > L]
            if over:
                sl.violations.append({"signature": "C08/level-limit-exceeded(after a failed sprout)", "detail": f"after step {k + 1}: level {over[0][0]} has {over[0][1]} active demes, the level limit is {L} ({r['faults']} injected fault(s) in the run)", "replay": {"spec": spec, "faults_at": [a, b]}})
                break
    return sl


def _user_generator(rng):
    sprout = {"kind": "custom", "generator": "user", "gen_dist_factor": 1.0, "trunc_factor": 1.0, "deme_filters": (["far"] if rng.random() < 0.4 else []), "far_enough": float(rng.uniform(0.01, 0.2)),
              "fil_dist_factor": 1.0, "norm_ord": 2, "check_only_active": True, "deme_limit": 3, "tree_filters": ["levellimit"], "level_limit": int(rng.integers(1, 4))}
    pop = ["sea", "de", "shade", "ga", "ded"]
    return {"nlev": int(rng.choice([2, 2, 3])), "engines": {0: pop, 1: pop + ["cma"], 2: ["sea", "de", "cma"]}, "sprout": sprout,
            "gsc": {"kind": "MetaepochLimit", "limit": int(rng.integers(4, 9))}, "lsc": {1: {"kind": "MetaepochLimit", "limit": 2}, 2: {"kind": "MetaepochLimit", "limit": 2}}}


def search(ctx, broken):
    return runs.monitor_batch(ctx, PID, 500, salt=97, force=FORCE).violations


def replay(data):
    spec = data["violation"]["replay"]["spec"]
    _, res = runs.monitored_run(spec, {PID})
    for v in res.get(PID, []):
        print(v["signature"], v["detail"])
    return not res.get(PID)
