import PyhmsVerif.Model.Fit
import PyhmsVerif.Model.F64
/-!
# M2 — problem wrappers (`pyhms/core/problem.py`)

A wrapper stack is a list of wrappers, outermost first, over a `FunctionProblem` with a
direction.  The objective is environment: a call carries the value the objective *would*
return; `evalStack` says what the stack returns, how each layer's state changes and
whether the objective was actually invoked.
-/
namespace Problem

inductive Wrapper
  /-- `EvalCountingProblem` -/
  | counting (n : Nat)
  /-- `EvalCutoffProblem(eval_cutoff)` -/
  | cutoff (n : Nat) (limit : Nat)
  /-- `PrecisionCutoffProblem(global_optima, precision)`; `eta = none` is `np.inf` -/
  | precision (n : Nat) (opt eps : Rat) (eta : Option Nat) (hit : Bool)
  /-- `StatsGatheringProblem` (durations are wall-clock, not modelled; their number is `n`) -/
  | stats (n : Nat)
deriving DecidableEq, Repr

def Wrapper.count : Wrapper → Nat
  | .counting n => n
  | .cutoff n _ => n
  | .precision n _ _ _ _ => n
  | .stats n => n

/-- `abs(fitness - global_optima) <= precision` as computed in binary64 -/
def withinPrecision (v : Fit) (opt eps : Rat) : Bool :=
  match v with
  | .fin q => match F64.rnd (q - opt) with
    | some d => decide (F64.absR d ≤ eps)
    | none => false
  | _ => false

/-- one layer's reaction once the layers below have answered `r` -/
def Wrapper.after (w : Wrapper) (r : Fit) : Wrapper :=
  match w with
  | .counting n => .counting (n + 1)
  | .cutoff n c => .cutoff (n + 1) c
  | .stats n => .stats (n + 1)
  | .precision n opt eps eta hit =>
    if withinPrecision r opt eps && !hit then .precision (n + 1) opt eps (some (n + 1)) true
    else .precision (n + 1) opt eps eta hit

/-- a cutoff layer that refuses the call -/
def Wrapper.refuses : Wrapper → Bool
  | .cutoff n c => decide (n ≥ c)
  | _ => false

/-- `stack.evaluate(x)` where the objective would return `v`.
Returns the new stack, the value returned to the caller, and whether the objective was invoked. -/
def evalStack (maximize : Bool) : List Wrapper → Fit → List Wrapper × Fit × Bool
  | [], v => ([], v, true)
  | w :: ws, v =>
    if w.refuses then (w :: ws, Fit.sentinel maximize, false)
    else
      let p := evalStack maximize ws v
      (w.after p.2.1 :: p.1, p.2.1, p.2.2)

/-- a whole call sequence; outputs in call order -/
def runStack (maximize : Bool) : List Wrapper → List Fit → List Wrapper × List (Fit × Bool)
  | ws, [] => (ws, [])
  | ws, v :: vs =>
    let p := evalStack maximize ws v
    let q := runStack maximize p.1 vs
    (q.1, (p.2.1, p.2.2) :: q.2)

/-- number of objective invocations in an output trace -/
def invocations (outs : List (Fit × Bool)) : Nat := (outs.filter (·.2)).length

/-- `SingularProblemPrecisionReached` reads `hit_precision` of the wrapper it was given -/
def Wrapper.hitPrecision : Wrapper → Bool
  | .precision _ _ _ _ hit => hit
  | _ => false

end Problem
