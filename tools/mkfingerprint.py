#!/venv/bin/python
"""Records the syntax-tree fingerprint of /repo/pyhms (see harness/focus.py).  Run on the tree the
model was validated against (after a `fix:` commit in /repo), then commit source_fingerprint.json."""
import json
import os
import subprocess
import sys

HERE = os.path.dirname(os.path.dirname(os.path.abspath(__file__)))
sys.path.insert(0, HERE)
from harness import focus  # noqa: E402

dirty = subprocess.run(["git", "-C", focus.REPO, "status", "--porcelain", "--", "pyhms"], capture_output=True, text=True).stdout.strip()
if dirty:
    print("refusing: /repo/pyhms has uncommitted changes\n" + dirty)
    sys.exit(1)
head = subprocess.run(["git", "-C", focus.REPO, "rev-parse", "HEAD"], capture_output=True, text=True).stdout.strip()
json.dump({"repo_head": head, "files": focus.current()}, open(focus.FP, "w"), indent=1, sort_keys=True)
print("recorded", len(focus.current()), "modules at", head[:10])
