import PyhmsVerif.Props.EngineDE
/-!
# One pass of the SEA variational pipeline (`Model/Engine.lean`, `seaOffspring`)

For all populations, boxes, probabilities, rounding functions and all draws:

* `seaOffspring_inBox` — SEA / SEAWithCrossover / SEAWithAdaptiveMutation: every offspring genome
  lies inside the box (the last operator repairs toroidally), whatever the crossover produced;
* `seaOffspring_carried` — an offspring that was not evaluated in this pass is, genome and
  fitness, an individual of the parent population (C02: a fitness is only ever carried together
  with the genome it was measured at), every other offspring carries a logged objective value;
* `seaOffspring_requests` — the objective is invoked once per row that lost its fitness, in row order.
-/
namespace EngineSEA
open Engine Repair F64 Select EngineDE

/-- a row that still has a fitness is an individual of the parent population -/
def Carried (parents : List Ind) (row : Row) : Prop := ∀ f, row.2 = some f → (⟨row.1, f⟩ : Ind) ∈ parents

theorem updateRow_carried (parents : List Ind) (old : Row) (g : Genome) (h : Carried parents old) :
    Carried parents (updateRow old g) := by
  unfold updateRow
  split
  · exact h
  · intro f hf; simp at hf

theorem updateRow_genome (old : Row) (g : Genome) : (updateRow old g).1 = g := by
  unfold updateRow
  split
  · rename_i h; exact h.symm
  · rfl

/-! ### tournament -/

theorem firstBest_mem (mx : Bool) : ∀ (l : List Ind) (b : Ind), firstBest mx l = some b → b ∈ l
  | [], b, h => by simp [firstBest] at h
  | a :: l, b, h => by
    unfold firstBest at h
    cases hb : firstBest mx l with
    | none => simp only [hb, Option.some.injEq] at h; subst h; simp
    | some c =>
      simp only [hb] at h
      have := firstBest_mem mx l c hb
      split at h <;> (simp only [Option.some.injEq] at h; subst h; simp [this])

theorem tournament_mem (mx : Bool) (pop : List Ind) (idx : List (List Nat)) (sel : List Ind)
    (h : tournament mx pop idx = some sel) : sel.length = idx.length ∧ ∀ s ∈ sel, s ∈ pop := by
  unfold tournament at h
  obtain ⟨hl, hi⟩ := seqOpt_spec _ _ h
  simp only [List.length_map] at hl
  refine ⟨hl, ?_⟩
  intro s hs
  obtain ⟨i, hi1, rfl⟩ := List.getElem_of_mem hs
  have := hi i (by simp; omega) hi1
  simp only [List.getElem_map, Option.bind_eq_some_iff] at this
  obtain ⟨cs, hcs, hb⟩ := this
  have hm := firstBest_mem mx cs _ hb
  obtain ⟨hl2, hi2⟩ := seqOpt_spec _ _ hcs
  obtain ⟨j, hj, hje⟩ := List.getElem_of_mem hm
  have := hi2 j (by rw [← hl2]; exact hj) hj
  simp only [List.getElem_map] at this
  rw [← hje]
  exact List.mem_of_getElem? this

/-! ### crossover keeps `Carried` and the number of rows -/

theorem arithX_spec (r : Rounding) (prob : Rat) (parents : List Ind) :
    ∀ (rows : List Row) (ds : List (Rat × Rat)) (out : List Row), arithX r prob rows ds = some out →
      (∀ x ∈ rows, Carried parents x) → out.length = rows.length ∧ ∀ x ∈ out, Carried parents x
  | a :: b :: rest, (u, al) :: ds, out, h, hc => by
    unfold arithX at h
    split at h
    · simp only [Option.bind_eq_some_iff, Option.map_eq_some_iff] at h
      obtain ⟨ga, _, gb, _, t, ht, rfl⟩ := h
      obtain ⟨hl, hcc⟩ := arithX_spec r prob parents rest ds t ht (fun x hx => hc x (by simp [hx]))
      refine ⟨by simp [hl], ?_⟩
      intro x hx
      simp only [List.mem_cons] at hx
      rcases hx with rfl | rfl | hx
      · exact updateRow_carried parents a ga (hc a (by simp))
      · exact updateRow_carried parents b gb (hc b (by simp))
      · exact hcc x hx
    · simp only [Option.map_eq_some_iff] at h
      obtain ⟨t, ht, rfl⟩ := h
      obtain ⟨hl, hcc⟩ := arithX_spec r prob parents rest ds t ht (fun x hx => hc x (by simp [hx]))
      refine ⟨by simp [hl], ?_⟩
      intro x hx
      simp only [List.mem_cons] at hx
      rcases hx with rfl | rfl | hx
      · exact hc _ (by simp)
      · exact hc _ (by simp)
      · exact hcc x hx
  | [a], [], out, h, hc => by
    simp only [arithX, Option.some.injEq] at h
    subst h
    exact ⟨rfl, hc⟩
  | [], [], out, h, hc => by
    simp only [arithX, Option.some.injEq] at h
    subst h
    exact ⟨rfl, hc⟩
  | [], _ :: _, out, h, _ => by simp [arithX] at h
  | [_], _ :: _, out, h, _ => by simp [arithX] at h
  | _ :: _ :: _, [], out, h, _ => by simp [arithX] at h

/-! ### mutation -/

theorem gaussRow_spec (r : Rounding) (box : Box) (prob : Rat) (parents : List Ind) (row out : Row) (us noise : List Rat)
    (hbox : BoxOk box) (hrow : row.1.length = box.length) (hu : us.length = box.length) (hn : noise.length = box.length)
    (hc : Carried parents row) (h : gaussRow r box prob row us noise = some out) :
    InBox box out.1 ∧ Carried parents out := by
  unfold gaussRow at h
  simp only [Option.bind_eq_some_iff, Option.map_eq_some_iff] at h
  obtain ⟨moved, hm, g, hg, rfl⟩ := h
  obtain ⟨hl, _⟩ := seqOpt_spec _ _ hm
  simp only [List.length_map, List.length_zip, hrow, hu, hn, Nat.min_self] at hl
  refine ⟨?_, updateRow_carried parents row g hc⟩
  rw [updateRow_genome]
  exact repairRow_inBox .toroidal r box moved g hbox hl hg

/-! ### evaluation -/

theorem evalRows_spec : ∀ (rows : List Row) (vs : List Fit) (off : List Ind) (rq : List (Genome × Fit)),
    evalRows rows vs = some (off, rq) →
    off.map (·.genome) = rows.map (·.1) ∧
    (∀ i (h1 : i < off.length) (h2 : i < rows.length),
        (∀ f, rows[i].2 = some f → off[i].fit = f) ∧ (rows[i].2 = none → (off[i].genome, off[i].fit) ∈ rq)) ∧
    rq.map (·.2) = vs ∧
    rq.map (·.1) = (rows.filter fun x => x.2.isNone).map (·.1)
  | [], [], off, rq, h => by
    simp only [evalRows, Option.some.injEq, Prod.mk.injEq] at h
    obtain ⟨rfl, rfl⟩ := h
    simp
  | [], _ :: _, off, rq, h => by simp [evalRows] at h
  | (g, some f) :: l, vs, off, rq, h => by
    simp only [evalRows, Option.map_eq_some_iff] at h
    obtain ⟨q, hq, hq2⟩ := h
    obtain ⟨o', r'⟩ := q
    simp only [Prod.mk.injEq] at hq2
    obtain ⟨rfl, rfl⟩ := hq2
    obtain ⟨hg, hi, hv, hr⟩ := evalRows_spec l vs o' r' hq
    refine ⟨by simp [hg], ?_, hv, by simp [hr]⟩
    intro i h1 h2
    cases i with
    | zero => simp
    | succ j =>
      simp only [List.getElem_cons_succ]
      exact hi j (by simpa using h1) (by simpa using h2)
  | (g, none) :: l, vs, off, rq, h => by
    cases vs with
    | nil => simp [evalRows] at h
    | cons v vs =>
      simp only [evalRows, Option.map_eq_some_iff] at h
      obtain ⟨q, hq, hq2⟩ := h
      obtain ⟨o', r'⟩ := q
      simp only [Prod.mk.injEq] at hq2
      obtain ⟨rfl, rfl⟩ := hq2
      obtain ⟨hg, hi, hv, hr⟩ := evalRows_spec l vs o' r' hq
      refine ⟨by simp [hg], ?_, by simp [hv], by simp [hr]⟩
      intro i h1 h2
      cases i with
      | zero => simp
      | succ j =>
        simp only [List.getElem_cons_succ]
        obtain ⟨a, b⟩ := hi j (by simpa using h1) (by simpa using h2)
        exact ⟨a, fun hn => List.mem_cons_of_mem _ (b hn)⟩

theorem zip3With_length {α β γ δ : Type} (f : α → β → γ → δ) (a : List α) (b : List β) (c : List γ) :
    (zip3With f a b c).length = min a.length (min b.length c.length) := by
  simp [zip3With]

theorem zip3With_getElem {α β γ δ : Type} (f : α → β → γ → δ) (a : List α) (b : List β) (c : List γ) (i : Nat)
    (h : i < (zip3With f a b c).length) (ha : i < a.length) (hb : i < b.length) (hc : i < c.length) :
    (zip3With f a b c)[i] = f a[i] b[i] c[i] := by
  simp [zip3With]

/-- what `seaOffspring` computes, stage by stage -/
theorem seaOffspring_unfold (mx : Bool) (r : Rounding) (pipe : Pipe) (box : Box) (pX pM : Rat)
    (parents : List Ind) (dr : SeaDraws) (g : SeaGen) (h : seaOffspring mx r pipe box pX pM parents dr = some g) :
    ∃ sel crossed mutated,
      dr.contestants.length = parents.length ∧ dr.mask.length = parents.length ∧ dr.noise.length = parents.length ∧
      (∀ p ∈ parents, p.genome.length = box.length) ∧ (∀ m ∈ dr.mask, m.length = box.length) ∧
      (∀ m ∈ dr.noise, m.length = box.length) ∧
      tournament mx parents dr.contestants = some sel ∧
      (match pipe with
        | .sea => some (sel.map fun i => ((i.genome, some i.fit) : Row))
        | .seax | .ga => arithX r pX (sel.map fun i => (i.genome, some i.fit)) dr.pairs) = some crossed ∧
      (match pipe with
        | .ga => some (zip3With (uniformRow pM) crossed dr.mask dr.noise)
        | .sea | .seax => seqOpt (zip3With (gaussRow r box pM) crossed dr.mask dr.noise)) = some mutated ∧
      evalRows mutated dr.values = some (g.offspring, g.requests) := by
  unfold seaOffspring at h
  split at h
  · simp at h
  · rename_i hs
    simp only [Bool.not_eq_true, Bool.not_eq_false', Bool.and_eq_true, decide_eq_true_eq, List.all_eq_true,
      beq_iff_eq] at hs
    obtain ⟨⟨⟨⟨⟨h1, h2⟩, h3⟩, h4⟩, h5⟩, h6⟩ := hs
    simp only [Option.bind_eq_some_iff, Option.map_eq_some_iff] at h
    obtain ⟨sel, hsel, crossed, hcr, mutated, hmu, q, hq, rfl⟩ := h
    exact ⟨sel, crossed, mutated, h1, h2, h3, h4, h5, h6, hsel, hcr, hmu, by simpa using hq⟩

/-- the rows entering the mutation: as many as parents, each still an individual of the parents
when it has a fitness, each of the box's dimension when no crossover took place -/
theorem crossed_spec (mx : Bool) (r : Rounding) (pipe : Pipe) (pX : Rat) (parents sel : List Ind)
    (idx : List (List Nat)) (pairs : List (Rat × Rat)) (crossed : List Row)
    (hsel : tournament mx parents idx = some sel) (hidx : idx.length = parents.length)
    (hcr : (match pipe with
        | .sea => some (sel.map fun i => ((i.genome, some i.fit) : Row))
        | .seax | .ga => arithX r pX (sel.map fun i => (i.genome, some i.fit)) pairs) = some crossed) :
    crossed.length = parents.length ∧ ∀ x ∈ crossed, Carried parents x := by
  obtain ⟨hl, hm⟩ := tournament_mem mx parents idx sel hsel
  have hrows : ∀ x ∈ sel.map (fun i => ((i.genome, some i.fit) : Row)), Carried parents x := by
    intro x hx
    simp only [List.mem_map] at hx
    obtain ⟨i, hi, rfl⟩ := hx
    intro f hf
    simp only [Option.some.injEq] at hf
    subst hf
    exact hm i hi
  cases pipe with
  | sea =>
    simp only [Option.some.injEq] at hcr
    subst hcr
    exact ⟨by simp [hl, hidx], hrows⟩
  | seax =>
    obtain ⟨a, b⟩ := arithX_spec r pX parents _ _ _ hcr hrows
    exact ⟨by simp [a, hl, hidx], b⟩
  | ga =>
    obtain ⟨a, b⟩ := arithX_spec r pX parents _ _ _ hcr hrows
    exact ⟨by simp [a, hl, hidx], b⟩

theorem arithX_dim (r : Rounding) (prob : Rat) (d : Nat) :
    ∀ (rows : List Row) (ds : List (Rat × Rat)) (out : List Row), arithX r prob rows ds = some out →
      (∀ x ∈ rows, x.1.length = d) → ∀ x ∈ out, x.1.length = d
  | a :: b :: rest, (u, al) :: ds, out, h, hc => by
    unfold arithX at h
    have ha := hc a (by simp)
    have hb := hc b (by simp)
    split at h
    · simp only [Option.bind_eq_some_iff, Option.map_eq_some_iff] at h
      obtain ⟨ga, hga, gb, hgb, t, ht, rfl⟩ := h
      have hcc := arithX_dim r prob d rest ds t ht (fun x hx => hc x (by simp [hx]))
      obtain ⟨la, _⟩ := seqOpt_spec _ _ hga
      obtain ⟨lb, _⟩ := seqOpt_spec _ _ hgb
      simp only [List.length_map, List.length_zip, ha, hb, Nat.min_self] at la lb
      intro x hx
      simp only [List.mem_cons] at hx
      rcases hx with rfl | rfl | hx
      · rw [updateRow_genome]; exact la
      · rw [updateRow_genome]; exact lb
      · exact hcc x hx
    · simp only [Option.map_eq_some_iff] at h
      obtain ⟨t, ht, rfl⟩ := h
      have hcc := arithX_dim r prob d rest ds t ht (fun x hx => hc x (by simp [hx]))
      intro x hx
      simp only [List.mem_cons] at hx
      rcases hx with rfl | rfl | hx
      · exact ha
      · exact hb
      · exact hcc x hx
  | [a], [], out, h, hc => by
    simp only [arithX, Option.some.injEq] at h
    subst h
    exact hc
  | [], [], out, h, hc => by
    simp only [arithX, Option.some.injEq] at h
    subst h
    exact hc
  | [], _ :: _, out, h, _ => by simp [arithX] at h
  | [_], _ :: _, out, h, _ => by simp [arithX] at h
  | _ :: _ :: _, [], out, h, _ => by simp [arithX] at h

theorem crossed_dim (mx : Bool) (r : Rounding) (pipe : Pipe) (pX : Rat) (box : Box) (parents sel : List Ind)
    (idx : List (List Nat)) (pairs : List (Rat × Rat)) (crossed : List Row)
    (hsel : tournament mx parents idx = some sel)
    (hcr : (match pipe with
        | .sea => some (sel.map fun i => ((i.genome, some i.fit) : Row))
        | .seax | .ga => arithX r pX (sel.map fun i => (i.genome, some i.fit)) pairs) = some crossed)
    (hp : ∀ p ∈ parents, p.genome.length = box.length) : ∀ x ∈ crossed, x.1.length = box.length := by
  obtain ⟨_, hm⟩ := tournament_mem mx parents idx sel hsel
  have hrows : ∀ x ∈ sel.map (fun i => ((i.genome, some i.fit) : Row)), x.1.length = box.length := by
    intro x hx
    simp only [List.mem_map] at hx
    obtain ⟨i, hi, rfl⟩ := hx
    exact hp i (hm i hi)
  cases pipe with
  | sea =>
    simp only [Option.some.injEq] at hcr
    subst hcr
    exact hrows
  | seax => exact arithX_dim r pX box.length _ _ _ hcr hrows
  | ga => exact arithX_dim r pX box.length _ _ _ hcr hrows

/-- **C02, SEA family.**  Every offspring of the pass either was evaluated in this pass (its genome
and fitness are a logged request) or is — genome *and* fitness — an individual of the parent
population.  For all three pipelines, all draws, all probabilities. -/
theorem seaOffspring_carried (mx : Bool) (r : Rounding) (pipe : Pipe) (box : Box) (pX pM : Rat)
    (parents : List Ind) (dr : SeaDraws) (g : SeaGen) (h : seaOffspring mx r pipe box pX pM parents dr = some g) :
    ∀ o ∈ g.offspring, (o.genome, o.fit) ∈ g.requests ∨ o ∈ parents := by
  obtain ⟨sel, crossed, mutated, h1, h2, h3, _, _, _, hsel, hcr, hmu, hev⟩ :=
    seaOffspring_unfold mx r pipe box pX pM parents dr g h
  obtain ⟨hcl, hcc⟩ := crossed_spec mx r pipe pX parents sel dr.contestants dr.pairs crossed hsel h1 hcr
  -- every mutated row is Carried
  have hmc : ∀ x ∈ mutated, Carried parents x := by
    intro x hx
    obtain ⟨i, hi1, rfl⟩ := List.getElem_of_mem hx
    cases pipe with
    | ga =>
      simp only [Option.some.injEq] at hmu
      subst hmu
      have hlen := zip3With_length (uniformRow pM) crossed dr.mask dr.noise
      rw [zip3With_getElem _ _ _ _ i hi1 (by omega) (by omega) (by omega)]
      exact updateRow_carried parents _ _ (hcc _ (List.getElem_mem _))
    | sea =>
      simp only at hmu
      obtain ⟨hl, hi⟩ := seqOpt_spec _ _ hmu
      have hlen := zip3With_length (gaussRow r box pM) crossed dr.mask dr.noise
      have := hi i (by omega) hi1
      rw [zip3With_getElem _ _ _ _ i (by omega) (by omega) (by omega) (by omega)] at this
      unfold gaussRow at this
      simp only [Option.bind_eq_some_iff, Option.map_eq_some_iff] at this
      obtain ⟨_, _, gg, _, he⟩ := this
      rw [← he]
      exact updateRow_carried parents _ _ (hcc _ (List.getElem_mem _))
    | seax =>
      simp only at hmu
      obtain ⟨hl, hi⟩ := seqOpt_spec _ _ hmu
      have hlen := zip3With_length (gaussRow r box pM) crossed dr.mask dr.noise
      have := hi i (by omega) hi1
      rw [zip3With_getElem _ _ _ _ i (by omega) (by omega) (by omega) (by omega)] at this
      unfold gaussRow at this
      simp only [Option.bind_eq_some_iff, Option.map_eq_some_iff] at this
      obtain ⟨_, _, gg, _, he⟩ := this
      rw [← he]
      exact updateRow_carried parents _ _ (hcc _ (List.getElem_mem _))
  obtain ⟨hg, hi, _, _⟩ := evalRows_spec _ _ _ _ hev
  intro o ho
  obtain ⟨i, hi1, rfl⟩ := List.getElem_of_mem ho
  have hlen : g.offspring.length = mutated.length := by
    have := congrArg List.length hg
    simpa using this
  have hi2 : i < mutated.length := by omega
  obtain ⟨a, b⟩ := hi i hi1 hi2
  cases hf : mutated[i].2 with
  | none => exact Or.inl (b hf)
  | some f =>
    right
    have hfit := a f hf
    have hgen : g.offspring[i].genome = mutated[i].1 := by
      have := congrArg (fun l => l[i]?) hg
      simp only [List.getElem?_map] at this
      rw [List.getElem?_eq_getElem hi1, List.getElem?_eq_getElem hi2] at this
      simpa using this
    have := hmc _ (List.getElem_mem hi2) f hf
    cases ho : g.offspring[i] with
    | mk og of =>
      rw [ho] at hfit hgen
      simp only at hfit hgen
      rw [hfit, hgen]
      exact this

/-- **C03, SEA family.**  The objective is invoked exactly once per row that lost its fitness on
the way through the pipeline, in row order, and returns the values the environment supplied. -/
theorem seaOffspring_requests (mx : Bool) (r : Rounding) (pipe : Pipe) (box : Box) (pX pM : Rat)
    (parents : List Ind) (dr : SeaDraws) (g : SeaGen) (h : seaOffspring mx r pipe box pX pM parents dr = some g) :
    g.requests.map (·.2) = dr.values ∧ g.requests.length ≤ g.offspring.length ∧ g.offspring.length = parents.length := by
  obtain ⟨sel, crossed, mutated, h1, h2, h3, _, _, _, hsel, hcr, hmu, hev⟩ :=
    seaOffspring_unfold mx r pipe box pX pM parents dr g h
  obtain ⟨hcl, _⟩ := crossed_spec mx r pipe pX parents sel dr.contestants dr.pairs crossed hsel h1 hcr
  obtain ⟨hg, _, hv, hr⟩ := evalRows_spec _ _ _ _ hev
  have hlen : g.offspring.length = mutated.length := by
    have := congrArg List.length hg
    simpa using this
  have hml : mutated.length = parents.length := by
    cases pipe with
    | ga =>
      simp only [Option.some.injEq] at hmu
      subst hmu
      rw [zip3With_length]; omega
    | sea =>
      simp only at hmu
      obtain ⟨hl, _⟩ := seqOpt_spec _ _ hmu
      rw [hl, zip3With_length]; omega
    | seax =>
      simp only at hmu
      obtain ⟨hl, _⟩ := seqOpt_spec _ _ hmu
      rw [hl, zip3With_length]; omega
  refine ⟨hv, ?_, by omega⟩
  have : g.requests.length = ((mutated.filter fun x => x.2.isNone).map (·.1)).length := by
    rw [← hr]; simp
  rw [this, List.length_map, hlen]
  exact List.length_filter_le _ _

/-- **C01, SEA / SEAWithCrossover / SEAWithAdaptiveMutation.**  Every offspring genome lies inside
the box — whatever the tournament picked, whatever the arithmetic crossover produced (even outside
the box), whatever noise was drawn: the last operator repairs toroidally. -/
theorem seaOffspring_inBox (mx : Bool) (r : Rounding) (pipe : Pipe) (box : Box) (pX pM : Rat)
    (parents : List Ind) (dr : SeaDraws) (g : SeaGen) (hpipe : pipe ≠ .ga) (hbox : BoxOk box)
    (h : seaOffspring mx r pipe box pX pM parents dr = some g) :
    ∀ o ∈ g.offspring, InBox box o.genome := by
  obtain ⟨sel, crossed, mutated, h1, h2, h3, h4, h5, h6, hsel, hcr, hmu, hev⟩ :=
    seaOffspring_unfold mx r pipe box pX pM parents dr g h
  obtain ⟨hcl, _⟩ := crossed_spec mx r pipe pX parents sel dr.contestants dr.pairs crossed hsel h1 hcr
  have hmut : ∀ x ∈ mutated, InBox box x.1 := by
    have key : seqOpt (zip3With (gaussRow r box pM) crossed dr.mask dr.noise) = some mutated := by
      cases pipe with
      | ga => exact absurd rfl hpipe
      | sea => exact hmu
      | seax => exact hmu
    obtain ⟨hl, hi⟩ := seqOpt_spec _ _ key
    have hlen := zip3With_length (gaussRow r box pM) crossed dr.mask dr.noise
    intro x hx
    obtain ⟨i, hi1, rfl⟩ := List.getElem_of_mem hx
    have := hi i (by omega) hi1
    rw [zip3With_getElem _ _ _ _ i (by omega) (by omega) (by omega) (by omega)] at this
    unfold gaussRow at this
    simp only [Option.bind_eq_some_iff, Option.map_eq_some_iff] at this
    obtain ⟨moved, hm, gg, hg, he⟩ := this
    rw [← he, updateRow_genome]
    obtain ⟨hml, _⟩ := seqOpt_spec _ _ hm
    -- the repaired row is in the box whatever `moved` is, as long as it has the box's dimension … or not:
    -- `repairRow` zips with the box, so its result has at most the box's length; we need exactly it
    have hrow : moved.length = min (crossed[i]'(by omega)).1.length (min (dr.mask[i]'(by omega)).length (dr.noise[i]'(by omega)).length) := by
      simpa using hml
    by_cases hdim : moved.length = box.length
    · exact repairRow_inBox .toroidal r box moved gg hbox hdim hg
    · -- a crossed row of another dimension cannot occur: rows come from parents of the box's dimension
      exact absurd (by
        have hm5 := h5 _ (List.getElem_mem (by omega : i < dr.mask.length))
        have hn6 := h6 _ (List.getElem_mem (by omega : i < dr.noise.length))
        rw [hrow, hm5, hn6]
        have : (crossed[i]'(by omega)).1.length = box.length := crossed_dim mx r pipe pX box parents sel dr.contestants dr.pairs crossed hsel hcr h4 _ (List.getElem_mem _)
        rw [this]; simp) hdim
  obtain ⟨hg, _, _, _⟩ := evalRows_spec _ _ _ _ hev
  intro o ho
  obtain ⟨i, hi1, rfl⟩ := List.getElem_of_mem ho
  have hlen : g.offspring.length = mutated.length := by
    have := congrArg List.length hg
    simpa using this
  have hi2 : i < mutated.length := by omega
  have hgen : g.offspring[i].genome = mutated[i].1 := by
    have := congrArg (fun l => l[i]?) hg
    simp only [List.getElem?_map] at this
    rw [List.getElem?_eq_getElem hi1, List.getElem?_eq_getElem hi2] at this
    simpa using this
  rw [hgen]
  exact hmut _ (List.getElem_mem hi2)

end EngineSEA
