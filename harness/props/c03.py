"""C03 — Evaluation counts are exact and evaluation budgets are hard limits

Theorems: lean/PyhmsVerif/Props/C03.lean (about the tree model lean/PyhmsVerif/Model/Tree.lean).
Tie to /repo: trace refinement — real runs are re-executed by `Tree.step`, state dumps and
sprout-stage outputs are diffed (harness/refine.py); only disagreements that bear on this
property count.  Direct monitor of the property on the same kind of runs (harness/monitors.py).
"""
from .. import refine, runs

MODULE = 'PyhmsVerif.Props.C03Budget'
THEOREMS = ['C03.C03_run', 'C03.step_count', 'C03.gen_count', 'C03.local_count', 'C03.create_count', 'C03.budget_hard', 'C16.cutoff_hard', 'C16.head_law', 'C03.C03_budget_run', 'C03.minimize_budget', 'C03.step_budget', 'C16.C16_cutoff_hard_run', 'EngineDE.deGen_requests', 'EngineSEA.seaOffspring_requests', 'EngineDE.shadeGen_requests_carry']
EXTRA_MODULES = ['PyhmsVerif.Props.EngineDE', 'PyhmsVerif.Props.EngineSEA']
LEVEL = 'proof'
LEVEL_TEXT = 'Theorem (inductive invariant, every reachable state, all configurations and event sequences): while no cutoff wrapper has refused a request, per level the sum of the demes counters equals the number of objective invocations of that level; hard budget for any wrapper stack and call sequence (C16.cutoff_hard). Tie: trace refinement (the model computes every counter and every evaluation-limit verdict itself; dumps carry per-deme counters, totals and invocation counts) + direct monitor at every GSC consult + minimize() budget sweep. NEW (run level, minimize): C03_budget_run / minimize_budget — for every configuration whose levels all evaluate through one wrapper stack that is the single layer cutoff N (the tree minimize(maxfun=N) builds: checked on every run by capturing the TreeConfig that minimize hands to DemeTree), in every reachable state the wrapper counter (reported as nfev) equals the number of objective invocations made so far and never exceeds N: the budget is hard for whole runs and nfev is exact. C16_cutoff_hard_run: an evaluation-cutoff wrapper anywhere in a stack is hard for whole runs of any configuration. ENGINE LEVEL (Model/Engine.lean, Props/EngineDE.lean): one whole generation of DE.run / SHADE.run is in the model, deterministic given the generator draws (donor arithmetic in binary64, reflect repair, crossover mask incl. the row-zeroing quirk, fitness carry-over, which rows are evaluated, replacement), and is diffed bit-exactly against the real engines with recorded draws: deGen_requests — in one DE generation the objective is invoked exactly once per trial row that differs from its parent row, in row order. SEA FAMILY (Engine.seaOffspring, Props/EngineSEA.lean): one pass of the variational pipeline (tournament = first best contestant, arithmetic crossover in binary64, Gaussian mutation with toroidal repair or uniform mutation, loss of fitness on changed rows, evaluation in row order) is in the model and diffed bit-exactly against BaseSEA.run with recorded draws: seaOffspring_requests — the objective is invoked once per row that lost its fitness, in row order.'
LEVEL_NOTE = 'Trusted: Lean kernel + standard axioms; the hand-written tree model (Tree.step) is tied to DemeTree.run by trace refinement on sampled runs (every run is re-executed by the model, dumps and sprout stages diffed); numerical engines (NumPy RNG, cma, scipy), objective values and user-defined stop-condition verdicts are environment; monitors trusted as failing-input search. ScipyNfevExact: result.nfev equals the number of objective calls scipy made (the model rejects a local search whose nfev differs from its requests). minimize() is covered by the same runs through its own configuration (see the minimize slice).'
TECHNIQUE = "Lean 4 theorems (inductive invariants of the tree machine Tree.step, proved for all configurations and event sequences) tied to the code by trace refinement (Tree.step re-executes real runs; engine generations replayed bit-exactly by the engine model) + direct monitors as failing-input search"
RULE = "case = one traced run of a random configuration (1-3 levels, engine per level from the full list, every shipped GSC/LSC kind plus user-defined ones, both stock sprout mechanisms and user-composed chains, hibernation on/off, both directions, decimal boxes, optional cutoff/precision/stats wrappers, shared or per-level problems); non-trivial = run with >= 2 demes and >= 2 metaepochs; distinct by configuration hash"
ASSUMPTIONS = ["objective is deterministic and never returns NaN", "runs are capped at 12 metaepochs by a user-level composite stop condition"]
FORCE = None
PID = "C03"


def run(ctx):
    from .. import engine

    return [
        refine.refine_batch(ctx, ctx.size(120, 1500), force=FORCE, pid=PID, name="trace-refinement(Tree.step vs DemeTree.run)"),
        runs.minimize_slice(ctx, PID, ctx.size(12, 150)),
        runs.monitor_batch(ctx, PID, ctx.size(250, 3000), force=FORCE),
        engine.slice_engine(ctx, ctx.rng(81), ctx.size(250, 3000), only="C03/"),
        engine.slice_sea(ctx, ctx.rng(83), ctx.size(400, 5000), only="C03/"),
        # an objective with NaN holes (NaN is a legal value, ordered as worst): the property does not depend on it
        runs.nan_monitor_batch(ctx, PID, ctx.size(30, 300), salt=57),
    ]


def search(ctx, broken):
    return runs.monitor_batch(ctx, PID, 500, salt=97, force=FORCE).violations


def replay(data):
    spec = data["violation"]["replay"]["spec"]
    _, res = runs.monitored_run(spec, {PID})
    for v in res.get(PID, []):
        print(v["signature"], v["detail"])
    return not res.get(PID)
