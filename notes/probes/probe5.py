import numpy as np, random, sys, warnings
warnings.filterwarnings("ignore")
from pyhms import *
from pyhms.config import *
from pyhms.core.individual import Individual
from pyhms.utils.clusterization import NearestBetterClustering
from pyhms.utils.r5s import R5SSelection

# C15: tightly converged population -> str(genome) collisions
rng=np.random.default_rng(0)
prob=FunctionProblem(lambda x: float(np.sum(x**2)),bounds=np.array([(-5.,5.)]*2),maximize=False)
base=np.array([1.23456789,2.3456789])
pop=[Individual(base+rng.normal(0,1e-10,2),prob) for _ in range(8)]
for i in pop: i.evaluate()
print("ids", len(set(str(i.genome) for i in pop)), "of", len(pop))
nbc=NearestBetterClustering(pop,2.0,1.0)
res=nbc.cluster()
print("tree size",nbc.tree.size(),"n",len(pop),"distances",len(nbc.distances), "seeds", len(res))

# reference
def ref(pop, df, tf, maximize=False):
    s=sorted(pop,key=lambda i:(-i.fitness if maximize else i.fitness))
    s=s[:int(len(s)*tf)]
    d=[np.inf]
    for k in range(1,len(s)):
        better=[j for j in range(k) if (s[j].fitness<s[k].fitness if not maximize else s[j].fitness>s[k].fitness)]
        if not better: better=[0]
        d.append(min(np.linalg.norm(s[k].genome-s[j].genome) for j in better))
    m=np.mean(d[1:])
    return [s[k] for k in range(len(s)) if d[k]>m*df]
print("ref seeds", len(ref(pop,2.0,1.0)))

# ties in fitness (plateau) distinct genomes
pop2=[Individual(rng.uniform(-5,5,2),prob) for _ in range(10)]
for k,i in enumerate(pop2): i.fitness=float(k//3)
nbc=NearestBetterClustering(pop2,1.0,1.0); r=nbc.cluster()
print("ties: impl",sorted(tuple(i.genome) for i in r)==sorted(tuple(i.genome) for i in ref(pop2,1.0,1.0)), len(r), len(ref(pop2,1.0,1.0)))

# R5S maximize vs minimize
def mkpop(maximize):
    p=FunctionProblem(lambda x: 0.0,bounds=np.array([(-5.,5.)]*2),maximize=maximize)
    rng=np.random.default_rng(4)
    out=[]
    for k in range(12):
        g=rng.uniform(-5,5,2); fit=float(np.sum(g**2)); 
        out.append(Individual(g,p,fitness=(-fit if maximize else fit)))
    return out
a=R5SSelection()(mkpop(False)); b=R5SSelection()(mkpop(True))
print("R5S min", sorted(tuple(np.round(i.genome,3)) for i in a)); print("R5S max", sorted(tuple(np.round(i.genome,3)) for i in b))
