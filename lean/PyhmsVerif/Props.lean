import PyhmsVerif.Props.C17
