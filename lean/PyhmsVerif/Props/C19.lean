import PyhmsVerif.Props.C01
import PyhmsVerif.Props.C03
import PyhmsVerif.Props.C08
import PyhmsVerif.Props.C12Run
import PyhmsVerif.Props.C02Log
import PyhmsVerif.Props.C07Children
import PyhmsVerif.Props.Witness
/-!
# C19 — a restored tree keeps satisfying the tree invariants

The model side of snapshot / restore.  A snapshot is *a state*; what C19 asks of the restored
tree is that, run further, it keeps satisfying the tree invariants.  In the model this is the
statement that every invariant used for C01 / C03 / C04 / C06 / C07 / C08 / C11 / C12 is
**inductive from any state that satisfies it** — not only from a freshly constructed tree —
(`C19_continue`), and that every reachable state does satisfy them (`C19_reachable_good`), so
any state at which a snapshot can be taken is a valid starting point.  The accounting clause
is relative to the restored counters and log, as the property says: `CountInv` relates the
*restored* counters to the *restored* log and is preserved from there.

That `dill` really restores the state (object graph, RNG state, engine internals) is runtime
behaviour no model can exhibit; it is checked differentially by the harness.
-/
namespace C19
open Tree

/-- the tree invariants of the properties above, for a tree whose mechanism enforces level limit `L` -/
structure Good (L : Nat) (t : T) : Prop where
  wf : C07.WF t
  inBox : C01.LogInBox t
  count : C03.CountInv t
  limit : C08.Inv L t
  chain : C11.Chain t
  observed : C04.Obs t
  logcov : C04.LogCov t
  elite : PairChain.Inv C12.elitePair t
  evlog : C02.EvLog t
  children : C07.ChildOk t

/-- **one step from any good state gives a good state** -/
theorem step_good {L : Nat} {t t' : T} {ev : Ev} (hlim : C08.HasLimit t.cfg L) (hg : Good L t)
    (h : step t ev = .ok t') : Good L t' :=
  ⟨C07.step_wf hg.wf h, C01.step_logInBox hg.inBox h, C03.step_count hg.count h, C08.step_inv hlim hg.limit h,
    C11.step_chain hg.chain h, C04.step_obs hg.observed h, C04.step_logcov hg.wf hg.logcov h,
    PairChain.step_inv C12.elitePair_spec hg.elite h, C02.step_evlog hg.wf hg.evlog h,
    C07.step_childOk hg.wf hg.children h⟩

/-- **C19 (continuation).**  From *any* state that satisfies the tree invariants — in
particular a restored snapshot — every accepted continuation, of any length, ends in a state
that satisfies them; the demes that existed at the snapshot are still there, in the same
positions, inactive ones frozen, histories only extended, counters only grown. -/
theorem C19_continue {L : Nat} {t t' : T} {evs : List Ev} (hlim : C08.HasLimit t.cfg L) (hg : Good L t)
    (h : exec t evs = .ok t') :
    Good L t' ∧ ∃ old new, t'.demes = old ++ new ∧ List.Forall₂ C06.Later t.demes old := by
  refine ⟨?_, C06.C06_absorbing h⟩
  induction evs generalizing t with
  | nil => simp only [exec, Except.ok.injEq] at h; subst h; exact hg
  | cons e es ih =>
    simp only [exec, bind, Except.bind] at h
    split at h
    · simp at h
    · rename_i t1 h1
      exact ih (by rw [C08.step_cfg h1]; exact hlim) (step_good hlim hg h1) h

/-- every state at which a snapshot can be taken is good: reachable states satisfy all of it -/
theorem C19_reachable_good {cfg : Cfg} {stks : List (List Problem.Wrapper)} {rootEnv : NewEnv} {t0 t : T}
    {evs : List Ev} {L : Nat} (hlim : C08.HasLimit cfg L)
    (hi : init cfg stks rootEnv = .ok t0) (h : exec t0 evs = .ok t) : Good L t := by
  have h0 : Good L t0 := by
    refine ⟨C07.init_wf hi, C01.C01_run hi (evs := []) rfl, C03.C03_run hi (evs := []) rfl, (C08.init_inv L hi).1, ?_,
      C04.init_obs hi, C04.init_logcov hi, PairChain.init_inv hi, C02.init_evlog hi, C07.init_childOk hi⟩
    refine ⟨C11.create_chain (by intro d hd; simp at hd) hi, ?_⟩
    intro q id done pending hpc
    have := (createDeme_effect hi).pc
    rw [this] at hpc; cases hpc
  have hc0 : t0.cfg = cfg := (C08.init_inv L hi).2
  exact (C19_continue (by rw [hc0]; exact hlim) h0 h).1

/-- non-vacuity: the concrete run of `Props/Witness.lean` (a tree that sprouts a child and returns)
satisfies the hypotheses, so every state of it — in particular its final state — is `Good` -/
theorem witness_good : ∃ t, Good 1 t ∧ t.demes.length = 2 := by
  obtain ⟨t0, t, hi, he, hl⟩ := Witness.run_exists
  refine ⟨t, C19_reachable_good (L := 1) ?_ hi he, hl⟩
  exact List.mem_append_right _ (by simp [Witness.cfg])

end C19
