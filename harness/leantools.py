"""Lean side of a check: build the property's theorems, audit axioms, grep for escapes."""
import os
import re
import subprocess

from .common import LEAN_DIR

ALLOWED_AXIOMS = {"propext", "Classical.choice", "Quot.sound"}
FORBIDDEN = re.compile(r"\bsorry\b|\badmit\b|^\s*axiom\s|native_decide|bv_decide|implemented_by|\bunsafe\s|maxHeartbeats\s+0")


def lake_build(target, timeout=3000):
    targets = [target] if isinstance(target, str) else list(target)
    p = subprocess.run(["lake", "build"] + targets, cwd=LEAN_DIR, stdout=subprocess.PIPE, stderr=subprocess.STDOUT, timeout=timeout)
    return p.returncode == 0, p.stdout.decode()[-6000:]


def strip_comments(src: str) -> str:
    # remove nested block comments and line comments
    out = []
    i = 0
    depth = 0
    n = len(src)
    while i < n:
        if src.startswith("/-", i):
            depth += 1
            i += 2
        elif depth and src.startswith("-/", i):
            depth -= 1
            i += 2
        elif depth:
            if src[i] == "\n":
                out.append("\n")
            i += 1
        elif src.startswith("--", i):
            while i < n and src[i] != "\n":
                i += 1
        else:
            out.append(src[i])
            i += 1
    return "".join(out)


def grep_forbidden():
    hits = []
    for root, _, files in os.walk(os.path.join(LEAN_DIR, "PyhmsVerif")):
        for fn in files:
            if fn.endswith(".lean"):
                p = os.path.join(root, fn)
                src = strip_comments(open(p).read())
                for ln, line in enumerate(src.split("\n"), 1):
                    if FORBIDDEN.search(line):
                        hits.append(f"{os.path.relpath(p, LEAN_DIR)}:{ln}: {line.strip()[:120]}")
    return hits


def audit(module, theorems, timeout=1200):
    """`#print axioms` each theorem; returns (per_theorem: {name: (ok, axioms|error)}, raw)"""
    d = os.path.join(LEAN_DIR, ".lake", "audit")
    os.makedirs(d, exist_ok=True)
    mods = [module] if isinstance(module, str) else list(module)
    path = os.path.join(d, "_".join(m.replace(".", "_") for m in mods)[:150] + ".lean")
    with open(path, "w") as f:
        for m in mods:
            f.write(f"import {m}\n")
        for t in theorems:
            f.write(f"#print axioms {t}\n")
    p = subprocess.run(["lake", "env", "lean", path], cwd=LEAN_DIR, stdout=subprocess.PIPE, stderr=subprocess.STDOUT, timeout=timeout)
    raw = p.stdout.decode()
    res = {}
    # outputs: "'C17.x' depends on axioms: [propext, ...]" or "'C17.x' does not depend on any axioms"
    flat = re.sub(r"\s+", " ", raw)
    for t in theorems:
        m = re.search(r"'" + re.escape(t) + r"' depends on axioms: \[([^\]]*)\]", flat)
        if m:
            ax = {a.strip() for a in m.group(1).split(",") if a.strip()}
            res[t] = (ax <= ALLOWED_AXIOMS, sorted(ax))
            continue
        if re.search(r"'" + re.escape(t) + r"' does not depend on any axioms", flat):
            res[t] = (True, [])
            continue
        res[t] = (False, ["<not found / error>"])
    return res, raw[-3000:]
