import PyhmsVerif.Props.C13
import PyhmsVerif.Model.Sprout
import Mathlib.Data.List.Nodup
/-!
# C13 — the whole sprouting decision mirrors

`getSeeds_mirror`: for every tree view, every environment (distances, NBC means) and every
mechanism (any generator, any chain of filters), the seeds selected under `maximize = true`
are exactly the mirror images of the seeds selected on the mirrored view (`−f`) under
`maximize = false`.  This covers nearest-better clustering, best-per-deme, `DemeLimit`,
`LevelLimit` (finding D8 lived here), `FarEnough`, `NBC_FarEnough` and `SkipSameSprout`.
-/
namespace C13
open Select NBC Sprout

def negP (p : Nat × Ind) : Nat × Ind := (p.1, negInd p.2)

@[simp] theorem negInd_genome (a : Ind) : (negInd a).genome = a.genome := rfl
@[simp] theorem negInd_fit (a : Ind) : (negInd a).fit = a.fit.neg := rfl
@[simp] theorem negP_fst (p : Nat × Ind) : (negP p).1 = p.1 := rfl
@[simp] theorem negP_snd (p : Nat × Ind) : (negP p).2 = negInd p.2 := rfl

theorem neg_injective {a b : Fit} (h : a.neg = b.neg) : a = b := by
  have := congrArg Fit.neg h
  simpa [Fit.neg_neg] using this

theorem fit_beq_neg (a b : Fit) : (a.neg == b.neg) = (a == b) := by
  by_cases h : a = b
  · simp [h]
  · have : a.neg ≠ b.neg := fun hn => h (neg_injective hn)
    simp [h, this]

-- ---------------------------------------------------------------- sorting
theorem insertDesc_mirror (a : Nat × Ind) (l : List (Nat × Ind)) :
    insertDesc false (negP a) (l.map negP) = (insertDesc true a l).map negP := by
  induction l with
  | nil => rfl
  | cons b l ih =>
    simp only [List.map_cons, insertDesc, negP_snd, ← worse_mirror]
    split
    · simp [ih]
    · simp

theorem sortDesc_mirror (l : List (Nat × Ind)) : sortDesc false (l.map negP) = (sortDesc true l).map negP := by
  induction l with
  | nil => rfl
  | cons a l ih => simp only [List.map_cons, sortDesc, ih, insertDesc_mirror]

theorem insertLex_mirror (a : Nat × Ind) (l : List (Nat × Ind)) :
    insertLex (negP a) (l.map negP) = (insertLex a l).map negP := by
  induction l with
  | nil => rfl
  | cons b l ih =>
    by_cases hc : lexLt a.2.genome b.2.genome = true <;> simp [insertLex, hc, ih]

theorem sortLex_mirror (l : List (Nat × Ind)) : sortLex (l.map negP) = (sortLex l).map negP := by
  unfold sortLex
  have key : ∀ (l acc : List (Nat × Ind)),
      (l.map negP).foldl (fun acc a => insertLex a acc) (acc.map negP) =
        (l.foldl (fun acc a => insertLex a acc) acc).map negP := by
    intro l
    induction l with
    | nil => intro acc; rfl
    | cons a l ih =>
      intro acc
      simp only [List.map_cons, List.foldl_cons, insertLex_mirror, ih]
  simpa using key l []

-- ---------------------------------------------------------------- nearest-better distances
theorem firstSameFit_mirror (s : List (Nat × Ind)) (f : Fit) :
    firstSameFit (s.map negP) f.neg = firstSameFit s f := by
  unfold firstSameFit
  congr 1
  induction s with
  | nil => rfl
  | cons a l ih =>
    simp only [List.map_cons, List.findIdx?_cons, negP_snd, negInd_fit, fit_beq_neg]
    split
    · rfl
    · rw [ih]

theorem nbDist_mirror (dist : Nat → Nat → Rat) (s : List (Nat × Ind)) (i : Nat) :
    nbDist dist (s.map negP) i = nbDist dist s i := by
  unfold nbDist
  simp only [List.getElem?_map]
  cases hi : s[i]? with
  | none => simp
  | some p =>
    cases h0 : s[0]? with
    | none => simp
    | some root =>
      simp only [Option.map_some, negP_snd, negInd_fit, fit_beq_neg, negP_fst, firstSameFit_mirror]
      split
      · rfl
      · rw [← List.map_take, List.map_map]
        rfl

theorem clusterSorted_mirror (dist : Nat → Nat → Rat) (s : List (Nat × Ind)) (phi : Rat) (mean : Option Rat) :
    clusterSorted dist (s.map negP) phi mean =
      (clusterSorted dist s phi mean).map fun r =>
        { kept := r.kept.map negP, dists := r.dists, seeds := r.seeds.map negInd } := by
  unfold clusterSorted
  have hdup : ∀ j, isDupAt (s.map negP) j = isDupAt s j := by
    intro j
    unfold isDupAt
    simp only [List.getElem?_map]
    cases s[j]? with
    | none => rfl
    | some p => simp only [← List.map_take, List.any_map]; rfl
  simp only [hdup, List.length_map, nbDist_mirror]
  split
  · rfl
  · cases F64.rnd (mean.getD 0 * phi) with
    | none => rfl
    | some thr =>
      simp only [Option.bind_some]
      cases s with
      | nil => rfl
      | cons root rest =>
        simp only [List.map_cons, Option.map_some, Option.some.injEq, Result.mk.injEq, true_and, negP_snd,
          List.cons.injEq]
        -- the nodes are the mirrored nodes
        generalize hidx : (List.filter _ (List.map (fun x => x + 1) (List.range ((root :: rest).length - 1)))) = idxs
        have hnodes : (idxs.filterMap fun j => (negP root :: rest.map negP)[j]?) =
            (idxs.filterMap fun j => (root :: rest)[j]?).map negP := by
          rw [List.map_filterMap]
          apply List.filterMap_congr
          intro j _
          have : (negP root :: rest.map negP) = (root :: rest).map negP := rfl
          rw [this, List.getElem?_map]
        rw [hnodes]
        generalize (idxs.filterMap fun j => (root :: rest)[j]?) = nodes
        generalize (idxs.filterMap fun j => nbDist dist (root :: rest) j) = ds
        induction nodes generalizing ds with
        | nil => simp
        | cons n ns ih =>
          cases ds with
          | nil => simp
          | cons d ds =>
            simp only [List.map_cons, List.zip_cons_cons, List.filter_cons]
            split
            · simp only [List.map_cons, negP_snd, List.cons.injEq, true_and]
              exact ih ds
            · exact ih ds

theorem zipIdx_mirror (pop : List Ind) :
    ((pop.map negInd).zipIdx.map fun p => (p.2, p.1)) = (pop.zipIdx.map fun p => (p.2, p.1)).map negP := by
  apply List.ext_getElem
  · simp
  · intro i h1 h2
    simp [negP]

/-- **nearest-better clustering mirrors** -/
theorem cluster_mirror (dist : Nat → Nat → Rat) (pop : List Ind) (phi t : Rat) (mean : Option Rat) :
    cluster false dist (pop.map negInd) phi t mean =
      (cluster true dist pop phi t mean).map fun r =>
        { kept := r.kept.map negP, dists := r.dists, seeds := r.seeds.map negInd } := by
  unfold cluster
  simp only [List.length_map]
  cases truncLen pop.length t with
  | none => rfl
  | some m =>
    simp only [Option.bind_some]
    split
    · rfl
    · rw [zipIdx_mirror, sortLex_mirror, sortDesc_mirror, ← List.map_take, clusterSorted_mirror]


-- ---------------------------------------------------------------- views and candidates
def mirrorDV (d : DemeView) : DemeView :=
  { d with seed := d.seed.map negInd, pop := d.pop.map negInd, histBest := d.histBest.map negInd }

/-- the view of the same tree on `−f`, minimised -/
def mirrorView (v : View) : View := { v with maximize := false, demes := v.demes.map mirrorDV }

def mirrorCand (c : Cand) : Cand := { c with inds := c.inds.map negInd }

@[simp] theorem mirrorDV_id (d : DemeView) : (mirrorDV d).id = d.id := rfl
@[simp] theorem mirrorDV_level (d : DemeView) : (mirrorDV d).level = d.level := rfl
@[simp] theorem mirrorDV_active (d : DemeView) : (mirrorDV d).active = d.active := rfl
@[simp] theorem mirrorDV_children (d : DemeView) : (mirrorDV d).children = d.children := rfl
@[simp] theorem mirrorCand_level (c : Cand) : (mirrorCand c).level = c.level := rfl
@[simp] theorem mirrorCand_deme (c : Cand) : (mirrorCand c).deme = c.deme := rfl
@[simp] theorem mirrorCand_nbc (c : Cand) : (mirrorCand c).nbcMean = c.nbcMean := rfl
@[simp] theorem mirrorCand_inds (c : Cand) : (mirrorCand c).inds = c.inds.map negInd := rfl

theorem filter_mirrorDV (p : DemeView → Bool) (hp : ∀ d, p (mirrorDV d) = p d) (l : List DemeView) :
    (l.map mirrorDV).filter p = (l.filter p).map mirrorDV := by
  rw [List.filter_map]
  congr 1
  apply List.filter_congr
  intro d _; exact hp d

theorem level_mirror (v : View) (l : Nat) : (mirrorView v).level l = (v.level l).map mirrorDV := by
  unfold View.level mirrorView
  exact filter_mirrorDV _ (fun _ => rfl) _

theorem activeAt_mirror (v : View) (l : Nat) : (mirrorView v).activeAt l = v.activeAt l := by
  unfold View.activeAt
  rw [level_mirror, filter_mirrorDV _ (fun _ => rfl)]
  simp

theorem negInd_injective {a b : Ind} (h : negInd a = negInd b) : a = b := by
  cases a; cases b
  simp only [negInd, Ind.mk.injEq] at h
  obtain ⟨rfl, h2⟩ := h
  rw [neg_injective h2]

theorem filter_negInd (p q : Ind → Bool) (hpq : ∀ i, p (negInd i) = q i) (l : List Ind) :
    (l.map negInd).filter p = (l.filter q).map negInd := by
  rw [List.filter_map]
  congr 1
  apply List.filter_congr
  intro i _; exact hpq i

-- ---------------------------------------------------------------- generators
theorem nbcCand_mirror (hv : v.maximize = true) (env : Env) (phi t : Rat) (d : DemeView) :
    nbcCand (mirrorView v) env phi t (mirrorDV d) = (nbcCand v env phi t d).map mirrorCand := by
  unfold nbcCand
  simp only [mirrorDV_id]
  cases env.nbc d.id with
  | none => rfl
  | some dm =>
    obtain ⟨dist, mean⟩ := dm
    simp only [mirrorView, mirrorDV, hv, cluster_mirror, Option.map_map]
    rfl

theorem mapM_mirror {α β : Type} (f : α → Option β) (g : α → Option β) (ma : α → α) (mb : β → β)
    (h : ∀ a, g (ma a) = (f a).map mb) (l : List α) :
    (l.map ma).mapM g = (l.mapM f).map (·.map mb) := by
  induction l with
  | nil => rfl
  | cons a l ih =>
    simp only [List.map_cons, List.mapM_cons, h, ih]
    cases f a with
    | none => rfl
    | some b =>
      cases l.mapM f with
      | none => rfl
      | some bs => rfl

theorem generate_mirror (v : View) (hv : v.maximize = true) (env : Env) (g : Generator) :
    generate (mirrorView v) env g = (generate v env g).map (·.map mirrorCand) := by
  cases g with
  | bestPerDeme =>
    simp only [generate, Option.map_some, Option.some.injEq]
    have hh : (mirrorView v).height = v.height := rfl
    have hd : (mirrorView v).demes = v.demes.map mirrorDV := rfl
    rw [hh, hd, filter_mirrorDV _ (fun _ => rfl), List.filterMap_map, List.map_filterMap]
    apply List.filterMap_congr
    intro d _
    simp only [Function.comp, mirrorView, mirrorDV, hv, ← best_mirror, Option.map_map]
    rfl
  | nbc phi t =>
    simp only [generate]
    have hh : (mirrorView v).height = v.height := rfl
    have hd : (mirrorView v).demes = v.demes.map mirrorDV := rfl
    rw [hh, hd, filter_mirrorDV _ (fun _ => rfl)]
    exact mapM_mirror _ _ mirrorDV mirrorCand (fun d => nbcCand_mirror hv env phi t d) _
  | nbcLocal phi t =>
    simp only [generate]
    have hh : (mirrorView v).height = v.height := rfl
    have hm : (mirrorView v).metaepoch = v.metaepoch := rfl
    have hd : (mirrorView v).demes = v.demes.map mirrorDV := rfl
    rw [hh, hm, hd, filter_mirrorDV _ (fun _ => rfl), filter_mirrorDV _ (fun _ => rfl),
      mapM_mirror _ _ mirrorDV mirrorCand (fun d => nbcCand_mirror hv env phi t d)]
    cases ((v.demes.filter fun d => d.level + 2 < v.height && d.active).mapM (nbcCand v env phi t)) with
    | none => rfl
    | some cs =>
      simp only [Option.map_some, Option.some.injEq, List.map_append, List.append_cancel_left_eq,
        List.filterMap_map, List.map_filterMap]
      apply List.filterMap_congr
      intro d _
      simp only [Function.comp, mirrorDV, Option.map_map]
      rfl


-- ---------------------------------------------------------------- filters
theorem farOk_mirror (env : Env) (thr : Rat) (sibs : List DemeView) (i : Ind) :
    farOk env thr (sibs.map mirrorDV) (negInd i) = farOk env thr sibs i := by
  simp only [farOk, List.all_map, negInd_genome]
  rfl

theorem sortDesc0_mirror (inds : List Ind) :
    (sortDesc false ((inds.map negInd).map fun i => (0, i))).map (·.2) =
      ((sortDesc true (inds.map fun i => (0, i))).map (·.2)).map negInd := by
  have : (inds.map negInd).map (fun i => ((0 : Nat), i)) = (inds.map fun i => ((0 : Nat), i)).map negP := by
    simp [List.map_map, Function.comp, negP]
  rw [this, sortDesc_mirror, List.map_map, List.map_map]
  rfl

theorem demeLimit_mirror (limit : Nat) (inds : List Ind) :
    demeLimit false limit (inds.map negInd) = (demeLimit true limit inds).map negInd := by
  unfold demeLimit
  simp only [List.length_map]
  split
  · rw [sortDesc0_mirror, List.map_take]
  · rfl

theorem levelCands_mirror (l : Nat) (cs : List Cand) :
    levelCands false l (cs.map mirrorCand) = (levelCands true l cs).map negInd := by
  unfold levelCands
  have h1 : (cs.map mirrorCand).filter (·.level == l) = (cs.filter (·.level == l)).map mirrorCand := by
    rw [List.filter_map]; rfl
  have h2 : ((cs.filter (·.level == l)).map mirrorCand).flatMap (·.inds) =
      ((cs.filter (·.level == l)).flatMap (·.inds)).map negInd := by
    generalize cs.filter (·.level == l) = xs
    induction xs with
    | nil => rfl
    | cons a l ih => simp [List.flatMap_cons, ih]
  rw [h1, h2, sortDesc0_mirror]

theorem pyIndex_map {α β : Type} (f : α → β) (l : List α) (i : Int) : pyIndex (l.map f) i = (pyIndex l i).map f := by
  unfold pyIndex
  simp only [List.length_map, List.getElem?_map]
  split
  · rfl
  · split <;> rfl

theorem levelLimitLevel_mirror (limit active l : Nat) (cs : List Cand) :
    levelLimitLevel false limit active l (cs.map mirrorCand) =
      (levelLimitLevel true limit active l cs).map (·.map mirrorCand) := by
  simp only [levelLimitLevel, levelCut, levelCands_mirror, List.length_map, pyIndex_map]
  by_cases hgt : active + (levelCands true l cs).length > limit
  · simp only [hgt, ↓reduceIte]
    cases hpi : pyIndex (levelCands true l cs) ((limit : Int) - (active : Int)) with
    | none => rfl
    | some cut =>
      simp only [Option.map_some, Option.some.injEq, List.map_map]
      apply List.map_congr_left
      intro c _
      simp only [Function.comp, mirrorCand_level]
      by_cases hl : (c.level == l) = true
      · simp only [hl, ↓reduceIte, mirrorCand, Cand.mk.injEq, true_and, and_true]
        exact filter_negInd (fun i => better false i (negInd cut)) (fun i => better true i cut)
          (fun i => (better_mirror i cut).symm) c.inds
      · simp only [hl, Bool.false_eq_true, ↓reduceIte]
  · simp only [hgt, ↓reduceIte, Option.map_some]

theorem foldlM_mirror (f g : List Cand → Nat → Option (List Cand))
    (h : ∀ cs l, g (cs.map mirrorCand) l = (f cs l).map (·.map mirrorCand)) (ls : List Nat) (cs : List Cand) :
    ls.foldlM g (cs.map mirrorCand) = (ls.foldlM f cs).map (·.map mirrorCand) := by
  induction ls generalizing cs with
  | nil => rfl
  | cons l ls ih =>
    simp only [List.foldlM_cons, h]
    cases f cs l with
    | none => rfl
    | some cs' => simpa using ih cs'

theorem find_mirrorDV (v : View) (id : List Nat) :
    (v.demes.map mirrorDV).find? (·.id == id) = (v.demes.find? (·.id == id)).map mirrorDV := by
  rw [List.find?_map]
  rfl

theorem sibs_mirror (v : View) (p : DemeView → Bool) (hp : ∀ d, p (mirrorDV d) = p d) (l : Nat) :
    ((mirrorView v).level l).filter p = ((v.level l).filter p).map mirrorDV := by
  rw [level_mirror, filter_mirrorDV p hp]

theorem farFilter_mirror (env : Env) (thr : Rat) (sibs : List DemeView) (inds : List Ind) :
    (inds.map negInd).filter (farOk env thr (sibs.map mirrorDV)) = (inds.filter (farOk env thr sibs)).map negInd :=
  filter_negInd _ _ (fun i => farOk_mirror env thr sibs i) inds

theorem skipSeeds_mirror (v : View) (kids : List (List Nat)) :
    ((v.demes.map mirrorDV).filter fun k => kids.contains k.id).filterMap (·.seed) =
      ((v.demes.filter fun k => kids.contains k.id).filterMap (·.seed)).map negInd := by
  rw [filter_mirrorDV (fun k => kids.contains k.id) (fun _ => rfl), List.filterMap_map, List.map_filterMap]
  apply List.filterMap_congr
  intro k _
  simp only [Function.comp, mirrorDV]

theorem applyFilter_mirror (v : View) (hv : v.maximize = true) (env : Env) (f : Filter) (cs : List Cand) :
    applyFilter (mirrorView v) env f (cs.map mirrorCand) = (applyFilter v env f cs).map (·.map mirrorCand) := by
  cases f with
  | farEnough thr =>
    simp only [applyFilter, Option.map_some, Option.some.injEq, List.map_map]
    apply List.map_congr_left
    intro c _
    simp only [Function.comp, mirrorCand_level, sibs_mirror v (fun x => x.active) (fun _ => rfl), mirrorCand,
      Cand.mk.injEq, true_and, and_true, farFilter_mirror]
  | nbcFarEnough factor onlyActive =>
    simp only [applyFilter, List.any_map]
    have hcomp : ((fun c : Cand => c.nbcMean.isNone) ∘ mirrorCand) = fun c => c.nbcMean.isNone := rfl
    rw [hcomp]
    by_cases hany : (cs.any fun c => c.nbcMean.isNone) = true
    · simp only [hany, ↓reduceIte, Option.map_none]
    · simp only [hany, Bool.false_eq_true, ↓reduceIte, Option.map_some, Option.some.injEq, List.map_map]
      apply List.map_congr_left
      intro c _
      simp only [Function.comp, mirrorCand_level, mirrorCand_nbc,
        sibs_mirror v (fun s => s.active || !onlyActive) (fun _ => rfl)]
      cases hm : c.nbcMean with
      | none =>
        simp only [List.isEmpty_map]
        by_cases he : ((v.level (c.level + 1)).filter fun s => s.active || !onlyActive).isEmpty = true <;>
          simp [he, mirrorCand]
      | some om =>
        cases om with
        | none =>
          simp only [List.isEmpty_map]
          by_cases he : ((v.level (c.level + 1)).filter fun s => s.active || !onlyActive).isEmpty = true <;>
            simp [he, mirrorCand]
        | some m =>
          simp only []
          cases F64.rnd (factor * m) with
          | none => simp [mirrorCand]
          | some thr =>
            simp only [mirrorCand, Cand.mk.injEq, true_and, and_true]
            exact farFilter_mirror env thr _ c.inds
  | demeLimit limit =>
    simp only [applyFilter, Option.map_some, Option.some.injEq, List.map_map]
    apply List.map_congr_left
    intro c _
    simp only [Function.comp, mirrorView, hv, mirrorCand, Cand.mk.injEq, true_and, and_true, demeLimit_mirror]
  | levelLimit limit =>
    simp only [applyFilter]
    have hh : (mirrorView v).height = v.height := rfl
    have hm : (mirrorView v).maximize = false := rfl
    rw [hh, hm, hv]
    apply foldlM_mirror
    intro cs' l
    rw [activeAt_mirror, levelLimitLevel_mirror]
  | skipSame =>
    simp only [applyFilter, Option.map_some, Option.some.injEq, List.map_map]
    apply List.map_congr_left
    intro c _
    simp only [Function.comp, mirrorCand_deme]
    have hd : (mirrorView v).demes = v.demes.map mirrorDV := rfl
    rw [hd, find_mirrorDV]
    cases v.demes.find? (·.id == c.deme) with
    | none => rfl
    | some d =>
      simp only [Option.map_some, mirrorDV_children]
      by_cases hc : d.children.isEmpty = true
      · simp only [hc, ↓reduceIte]
      · simp only [hc, Bool.false_eq_true, ↓reduceIte, mirrorCand_level, level_mirror, List.flatMap_map,
          mirrorDV_children, skipSeeds_mirror, mirrorCand, Cand.mk.injEq, true_and, and_true]
        apply filter_negInd
        intro i
        simp only [List.any_map, negInd_genome]
        rfl
  | mahalanobis =>
    simp only [applyFilter, Option.map_some, Option.some.injEq, List.map_map]
    apply List.map_congr_left
    intro c _
    simp only [Function.comp, mirrorCand_level, level_mirror, mirrorCand, Cand.mk.injEq, true_and, and_true]
    apply filter_negInd
    intro i
    simp only [List.all_map, negInd_genome]
    rfl

/-- a whole chain of filters mirrors -/
theorem applyFilters_mirror (v : View) (hv : v.maximize = true) (env : Env) (fs : List Filter) (cs : List Cand) :
    applyFilters (mirrorView v) env fs (cs.map mirrorCand) = (applyFilters v env fs cs).map (·.map mirrorCand) := by
  induction fs generalizing cs with
  | nil => rfl
  | cons f fs ih =>
    simp only [applyFilters, applyFilter_mirror v hv]
    cases applyFilter v env f cs with
    | none => rfl
    | some cs' => simpa using ih cs'

/-- **C13 — the sprouting decision mirrors.**  For every view of a tree that maximises `f`,
every environment and every mechanism: the seeds selected on the mirrored view (`−f`,
minimised) are the mirror images of the seeds selected on the original — same parents, same
genomes, negated fitness, same order. -/
theorem getSeeds_mirror (v : View) (hv : v.maximize = true) (env : Env) (m : Mechanism) :
    getSeeds (mirrorView v) env m = (getSeeds v env m).map (·.map mirrorCand) := by
  unfold getSeeds
  rw [generate_mirror v hv]
  cases generate v env m.gen with
  | none => rfl
  | some g =>
    simp only [Option.map_some, Option.bind_some, applyFilters_mirror v hv]
    cases applyFilters v env (m.demeFilters ++ m.treeFilters) g with
    | none => rfl
    | some cs =>
      simp only [Option.map_some, Option.some.injEq]
      rw [List.filter_map]
      congr 1
      apply List.filter_congr
      intro c _
      simp [Function.comp]

end C13
