"""C16 — problem wrappers are transparent and their counters follow simple laws.

Correspondence: real wrapper stacks from pyhms.core.problem driven call by call vs
`Problem.evalStack`; every observable diffed after every call.
Monitor: an independent statement of the laws on the real objects.
"""
import numpy as np

from ..common import Slice, fit, fr, run_driver

MODULE = 'PyhmsVerif.Props.C16Run'
THEOREMS = ['C16.transparent', 'C16.transparent_no_refusal', 'C16.head_law', 'C16.cutoff_hard', 'C16.precision_sticky', 'C16.precision_first', 'C16.C16_run', 'C16.C16_cutoff_hard_run', 'C16.step_traced']
LEVEL = "proof"
LEVEL_TEXT = 'Theorems over every stack (any depth/order/initial counters) and every call sequence: transparency, head law (count + cutoff law), hard budget, precision ETA law; model tied to pyhms.core.problem by call-by-call differential runs of generated stacks (depth 1-4, deeper in thorough) in both directions. NEW (run level): C16_run — in every reachable state of the tree machine every wrapper stack is in the state runStack computes from the initial stack on the sequence of objective values requested through it so far, and the invocations logged for the levels using the stack are exactly the invocations of that trace (inductive invariant Traced); so every wrapper law holds of the stacks of a running tree; C16_cutoff_hard_run: through a stack containing cutoff n c (at any position) the objective is invoked at most c - n times in any run.'
LEVEL_NOTE = "Trusted: Lean kernel + standard axioms; correspondence generator coverage; durations of StatsGatheringProblem are wall-clock and only their number is modelled; NaN objective values excluded."
TECHNIQUE = "Lean 4 proof by induction over stacks and call sequences + call-by-call differential correspondence"
RULE = "case = (direction, wrapper stack, scripted objective values); non-trivial = stack contains a cutoff that gets exhausted or a precision wrapper that is hit; distinct by (direction, stack spec, values)"
ASSUMPTIONS = ["objective values are not NaN", "wrappers are used through evaluate() only (no direct attribute writes)"]
TRUSTED_BASE = ["scripted objective (returns prepared doubles) stands for an arbitrary deterministic objective"]


def _user_problem(P, maximize):
    """a user-defined innermost problem with an ordering of its own (closeness to a target value)"""

    class NearTarget(P.Problem):
        def evaluate(self, genome, *args, **kwargs):
            return float(np.sum(genome))

        def worse_than(self, first_fitness, second_fitness):
            return abs(first_fitness - 1.5) > abs(second_fitness - 1.5)

        @property
        def bounds(self):
            return np.array([[-3.0, 4.0]])

        @property
        def maximize(self):
            return maximize

    return NearTarget()


def build(kinds, maximize, values, P, base=None):
    calls = []
    it = iter(values)

    def obj(x):
        v = next(it)
        calls.append(v)
        return v

    bounds = np.array([[-1.0, 1.0], [-2.0, 3.0]])
    base = base if base is not None else P.FunctionProblem(obj, bounds=bounds, maximize=maximize)
    layers = []
    prob = base
    for k in reversed(kinds):  # kinds are outermost first
        if k[0] == "C":
            prob = P.EvalCountingProblem(prob)
        elif k[0] == "X":
            prob = P.EvalCutoffProblem(prob, k[1])
        elif k[0] == "P":
            prob = P.PrecisionCutoffProblem(prob, k[1], k[2])
        elif k[0] == "S":
            prob = P.StatsGatheringProblem(prob)
        layers.append(prob)
    layers.reverse()
    return base, prob, layers, calls


def spec_tokens(kinds):
    out = []
    for k in kinds:
        if k[0] == "C":
            out.append("C 0")
        elif k[0] == "X":
            out.append(f"X 0 {k[1]}")
        elif k[0] == "P":
            out.append(f"P 0 {fr(k[1])} {fr(k[2])} none 0")
        else:
            out.append("S 0")
    return f"{len(kinds)} " + " ".join(out)


def state_str(kinds, layers):
    out = []
    for k, L in zip(kinds, layers):
        if k[0] == "C":
            out.append(f"C {L.n_evaluations}")
        elif k[0] == "X":
            out.append(f"X {L.n_evaluations} {k[1]}")
        elif k[0] == "S":
            assert len(L.durations) == L.n_evaluations
            out.append(f"S {L.n_evaluations}")
        else:
            eta = "none" if L.ETA == np.inf else str(int(L.ETA))
            out.append(f"P {L.n_evaluations} {eta} {1 if L.hit_precision else 0}")
    return " ; ".join(out)


def reference(kinds, maximize, values):
    """independent statement of the laws: per call (returned, invoked) and per-layer states"""
    st = [dict(n=0, eta=None, hit=False) for _ in kinds]
    res = []
    for v in values:
        depth = len(kinds)
        for i, k in enumerate(kinds):
            if k[0] == "X" and st[i]["n"] >= k[1]:
                depth = i
                break
        invoked = depth == len(kinds)
        ret = v if invoked else (-np.inf if maximize else np.inf)
        for i in range(depth):
            st[i]["n"] += 1
            k = kinds[i]
            if k[0] == "P" and not st[i]["hit"] and abs(ret - k[1]) <= k[2]:
                st[i]["hit"] = True
                st[i]["eta"] = st[i]["n"]
        res.append((ret, invoked, [dict(s) for s in st]))
    return res


def gen_case(rng, maxdepth):
    depth = int(rng.integers(1, maxdepth + 1))
    maximize = bool(rng.random() < 0.5)
    opt = float(rng.choice([0.0, 1.5, -2.25, 0.1]))
    eps = float(rng.choice([0.5, 1e-3, 0.1, 0.0]))
    kinds = []
    for _ in range(depth):
        c = rng.integers(0, 4)
        if c == 0:
            kinds.append(("C",))
        elif c == 1:
            kinds.append(("X", int(rng.integers(0, 7))))
        elif c == 2:
            kinds.append(("P", opt, eps))
        else:
            kinds.append(("S",))
    n = int(rng.integers(1, 13))
    vals = []
    for _ in range(n):
        c = rng.integers(0, 8)
        if c == 0:
            vals.append(opt)
        elif c == 1:
            vals.append(opt + eps)
        elif c == 2:
            vals.append(float(np.nextafter(opt + eps, np.inf)))
        elif c == 3:
            vals.append(opt - eps)
        elif c == 4:
            vals.append(float(np.nextafter(opt - eps, -np.inf)))
        elif c == 5:
            vals.append(float(rng.choice([np.inf, -np.inf, 1e300, -1e300])))
        else:
            vals.append(float(rng.normal(opt, 1.0)))
    return kinds, maximize, vals


def exhaustive_cases(maxdepth=3, maxlen=4):
    """small-scope exhaustive enumeration: every stack of depth <= maxdepth over six wrapper kinds,
    both directions, every value sequence of length <= maxlen over an alphabet that hits the
    precision optimum, its edge, one ulp outside the edge, a far value and +inf"""
    import itertools

    opt, eps = 0.0, 0.5
    kinds_alpha = [("C",), ("X", 0), ("X", 1), ("X", 2), ("P", opt, eps), ("S",)]
    vals_alpha = [0.0, 0.5, float(np.nextafter(0.5, np.inf)), 3.0, float("inf")]
    for depth in range(1, maxdepth + 1):
        for kinds in itertools.product(kinds_alpha, repeat=depth):
            for maximize in (False, True):
                for n in range(1, maxlen + 1):
                    for vals in itertools.product(vals_alpha, repeat=n):
                        yield list(kinds), maximize, list(vals)


def run_cases(ctx, rng, ncases, maxdepth, sl, cases=None):
    import pyhms.core.problem as P
    from pyhms.stop_conditions.gsc import SingularProblemPrecisionReached

    lines = []
    expect = []
    metas = []
    for kinds, maximize, vals in (cases if cases is not None else (gen_case(rng, maxdepth) for _ in range(ncases))):
        base, top, layers, calls = build(kinds, maximize, vals + [0.0] * 4, P)
        ref = reference(kinds, maximize, vals)
        per_call = []
        viol = None
        x = np.array([0.1, 0.2])
        # delegation (transparency of direction / bounds / comparison / unwrap)
        if top.maximize != maximize or not np.array_equal(top.bounds, base.bounds) or P.get_function_problem(top) is not base:
            viol = ("C16/delegation", "maximize/bounds/unwrap differ from the innermost problem")
        nan = float("nan")
        # (two NaNs are ordered by a coin flip in FunctionProblem: not compared)
        for a, b in [(1.0, 2.0), (2.0, 1.0), (1.0, 1.0), (np.inf, 1.0), (-np.inf, 1.0), (nan, 1.0), (1.0, nan), (nan, np.inf), (-np.inf, nan), (np.inf, -np.inf)]:
            if top.worse_than(a, b) != base.worse_than(a, b):
                viol = ("C16/delegation", f"worse_than({a},{b}) differs from innermost")
        # the same stack over a user-defined innermost problem with an ordering of its own
        ubase = _user_problem(P, maximize)
        _, utop, _, _ = build(kinds, maximize, [], P, base=ubase)
        if utop.maximize != ubase.maximize or not np.array_equal(utop.bounds, ubase.bounds):
            viol = viol or ("C16/delegation", "maximize/bounds differ from a user-defined innermost problem")
        for a, b in [(1.0, 2.0), (2.0, 1.0), (0.0, 3.0), (1.4, 1.7), (-5.0, 5.0)]:
            if utop.worse_than(a, b) != ubase.worse_than(a, b):
                viol = viol or ("C16/delegation", f"worse_than({a},{b}) differs from a user-defined innermost problem's own ordering")
        for i, v in enumerate(vals):
            before = len(calls)
            ret = top.evaluate(x)
            invoked = len(calls) - before
            per_call.append(f"{fit(ret)} {invoked} | {state_str(kinds, layers)}")
            r_ret, r_inv, r_st = ref[i]
            if invoked not in (0, 1) or bool(invoked) != r_inv or not (ret == r_ret):
                viol = viol or ("C16/transparency", f"call {i+1}: returned {ret!r} invoked {invoked}, law says {r_ret!r} invoked {r_inv}; stack {kinds} maximize={maximize}")
            for k, L, rs in zip(kinds, layers, r_st):
                if L.n_evaluations != rs["n"]:
                    viol = viol or ("C16/count-law", f"call {i+1}: layer {k} counts {L.n_evaluations}, forwarded {rs['n']}; stack {kinds}")
                if k[0] == "P":
                    eta = None if L.ETA == np.inf else int(L.ETA)
                    if eta != rs["eta"] or bool(L.hit_precision) != rs["hit"]:
                        viol = viol or ("C16/precision-law", f"call {i+1}: ETA {L.ETA} hit {L.hit_precision}, law says {rs['eta']} {rs['hit']}; stack {kinds} values {vals[:i+1]}")
                    if SingularProblemPrecisionReached(L)(None) != bool(L.hit_precision):
                        viol = viol or ("C16/precision-gsc", "SingularProblemPrecisionReached disagrees with hit_precision")
            for k in kinds:
                if k[0] == "X" and len(calls) > k[1] and k is kinds[[kk for kk in kinds].index(k)]:
                    pass
        # hard budget: objective invocations <= smallest cutoff
        cut = [k[1] for k in kinds if k[0] == "X"]
        if cut and len(calls) > min(cut):
            viol = viol or ("C16/cutoff-exceeded", f"objective invoked {len(calls)} times through a cutoff of {min(cut)}; stack {kinds}")
        lines.append(f"wrap {1 if maximize else 0} {spec_tokens(kinds)} {len(vals)} " + " ".join(fit(v) for v in vals))
        expect.append(" || ".join(per_call))
        metas.append((kinds, maximize, vals, viol, len(calls)))
    got = run_driver(lines)
    for line, e, g, (kinds, maximize, vals, viol, ncalls) in zip(lines, expect, got, metas):
        sl.cases += 1
        sl.count(f"depth{len(kinds)}")
        exhausted = any(k[0] == "X" for k in kinds) and ncalls < len(vals)
        hit = " 1" in e and any(k[0] == "P" for k in kinds) and any(seg.split(" ")[-1] == "1" for seg in e.replace(" || ", " ; ").split(" ; ") if seg.startswith("P"))
        if exhausted:
            sl.count("cutoff-exhausted")
        if hit:
            sl.count("precision-hit")
        if exhausted or hit:
            sl.nontrivial.add(line)
        if e != g:
            sl.disagreements.append({"op": line, "impl": e, "model": g})
        if viol:
            sl.violations.append({"signature": viol[0], "detail": viol[1], "replay": {"kinds": kinds, "maximize": maximize, "values": vals}})
    for line, e in list(zip(lines, expect))[:3]:
        sl.sample({"op": line, "observed": e})


def _wrap_on(P, kinds, base):
    """wrappers `kinds` (outermost first) on top of `base`; returns (top, layers outermost first)"""
    layers, prob = [], base
    for k in reversed(kinds):
        if k[0] == "C":
            prob = P.EvalCountingProblem(prob)
        elif k[0] == "X":
            prob = P.EvalCutoffProblem(prob, k[1])
        elif k[0] == "P":
            prob = P.PrecisionCutoffProblem(prob, k[1], k[2])
        else:
            prob = P.StatsGatheringProblem(prob)
        layers.append(prob)
    layers.reverse()
    return prob, layers


def _state_tokens(kinds, layers):
    """current state of real wrapper objects as INPUT tokens of the model driver"""
    out = []
    for k, L in zip(kinds, layers):
        n = L.n_evaluations
        if k[0] == "C":
            out.append(f"C {n}")
        elif k[0] == "X":
            out.append(f"X {n} {k[1]}")
        elif k[0] == "P":
            eta = "none" if L.ETA == np.inf else str(int(L.ETA))
            out.append(f"P {n} {fr(k[1])} {fr(k[2])} {eta} {1 if L.hit_precision else 0}")
        else:
            out.append(f"S {n}")
    return f"{len(kinds)} " + " ".join(out)


def shared_inner(ctx, rng, ncases):
    """two stacks that share their inner wrappers (what HMS builds: every deme puts its own counting wrapper
    on the stack of its level; levels may share a counted problem): calls arrive through either top.  Each
    call is checked on its own — the model is handed the state the real objects are in before the call and
    must predict the value returned, whether the objective is invoked, and the state of every layer of the
    path after it — so the wrappers' laws are checked for calls that bypass some of the layers."""
    from pyhms.core import problem as P

    sl = Slice("two-stacks-sharing-inner-wrappers(call-by-call from the real state)")
    lines, metas = [], []
    for _ in range(ncases):
        ka, maximize, vals = gen_case(rng, 2)
        kb, _, _ = gen_case(rng, 2)
        kshared, _, _ = gen_case(rng, 2)
        cur = [0.0]
        calls = []

        def obj(x, cur=cur, calls=calls):
            calls.append(cur[0])
            return cur[0]

        base = P.FunctionProblem(obj, bounds=np.array([[-1.0, 1.0]]), maximize=maximize)
        shared_top, shared_layers = _wrap_on(P, kshared, base)
        top_a, la = _wrap_on(P, ka, shared_top)
        top_b, lb = _wrap_on(P, kb, shared_top)
        x = np.array([0.1])
        desc = {"A": ka, "B": kb, "shared": kshared, "maximize": maximize, "values": vals}
        for i, v in enumerate(vals):
            use_a = bool(rng.random() < 0.5)
            kinds = (ka if use_a else kb) + kshared
            layers = (la if use_a else lb) + shared_layers
            before_tok = _state_tokens(kinds, layers)
            n_before = len(calls)
            cur[0] = v  # what the objective returns if this call reaches it
            ret = (top_a if use_a else top_b).evaluate(x)
            invoked = len(calls) > n_before
            lines.append(f"wrap {1 if maximize else 0} {before_tok} 1 {fit(v)}")
            metas.append((f"{fit(ret)} {1 if invoked else 0} | " + state_str(kinds, layers), desc, i, "A" if use_a else "B", invoked))
    got = run_driver(lines)
    for line, g, (exp, desc, i, which, invoked) in zip(lines, got, metas):
        sl.cases += 1
        sl.count("through-" + which)
        sl.count("forwarded" if invoked else "refused")
        sl.nontrivial.add(hash(line))
        if g != exp:
            sl.disagreements.append({"op": line[:600], "impl": exp[:400], "model": g[:400], "desc": {k: str(v)[:200] for k, v in desc.items()}, "call": i})
            sl.violations.append({"signature": "C16/shared-inner", "detail": f"call {i + 1} through stack {which}: the real wrappers end in [{exp}] but the laws give [{g}] (stacks A={desc['A']} B={desc['B']} over shared {desc['shared']}, maximize={desc['maximize']})", "replay": desc})
    if lines:
        sl.sample({"op": lines[0][:300], "model": got[0][:200]})
    return sl


def run(ctx):
    return _run_linear(ctx) + [shared_inner(ctx, ctx.rng(5), ctx.size(400, 6000)), precision_in_tree(ctx, ctx.rng(9), ctx.size(48, 600))]


def _prec_worker(spec):
    """a whole tree run whose global stop condition reads a precision wrapper: the wrapper's laws — the first
    within-precision answer sets `hit_precision` and records the call index in `ETA`; neither ever changes again —
    are checked on the real objects after construction, at every consult of the stop condition and after every
    step; the calls that reached the wrapper are replayed through the model's wrapper afterwards"""
    import pyhms.tree as T
    from pyhms.config import TreeConfig
    from pyhms.core import problem as P

    from .. import runs as R2
    from ..common import RunTimeout, is_env_crash, run_limit

    found, seen = [], []
    try:
        with run_limit():
            o = R2.build(spec, None, plain="callable")
            pp = o["probs"][0]
            while pp is not None and not isinstance(pp, P.PrecisionCutoffProblem):
                pp = getattr(pp, "_inner", None)
            if pp is None:
                return {"status": "skip"}
            answers = []
            orig_eval = pp.evaluate

            def ev(phenome, *a, **k):
                v = orig_eval(phenome, *a, **k)
                answers.append(float(v))
                return v

            pp.evaluate = ev
            opt, eps = float(pp._global_optima), float(pp.precision)

            def expected():
                idx = next((i + 1 for i, v in enumerate(answers) if abs(v - opt) <= eps), None)
                return (idx is not None), idx

            def look(where):
                hit, eta = bool(pp.hit_precision), pp.ETA
                eh, ei = expected()
                seen.append((where, hit, None if eta == float("inf") else int(eta)))
                if hit != eh or (eh and int(eta) != ei) or (not eh and eta != float("inf")):
                    if not found:
                        found.append(f"{where}: the precision wrapper reports hit_precision={hit}, ETA={eta}, but of the {len(answers)} answers it has returned so far the first one within {eps} of the optimum {opt} is {'number ' + str(ei) if eh else 'none'}")

            gsc = o["gsc"]

            class Looking:
                def __init__(self, inner):
                    self.inner = inner

                def __call__(self, tree):
                    look(f"before consult (metaepoch {tree.metaepoch_count})")
                    v = self.inner(tree)
                    look(f"after consult (metaepoch {tree.metaepoch_count})")
                    return v

            opts = {"random_seed": spec["seed"], "hibernation": spec["hibernation"]}
            tree = T.DemeTree(TreeConfig(o["levels"], Looking(gsc), o["sm"], options=opts, config_class_to_deme_class=o["custom"]))
            look("after construction")
            steps = 0
            while not tree._gsc(tree) and steps < spec["max_steps"]:
                tree.run_step()
                steps += 1
                look(f"after step {steps}")
    except RunTimeout as e:
        return {"status": "crash", "detail": f"run did not terminate: {e}"}
    except Exception as e:  # noqa: BLE001
        return {"status": "env" if is_env_crash(e) else "crash", "detail": f"{type(e).__name__}: {e}"}
    return {"status": "ok", "found": found, "answers": answers[:4000], "final": (bool(pp.hit_precision), None if pp.ETA == float("inf") else int(pp.ETA), int(pp._n_evals)), "opt": opt, "eps": eps, "hit_at_construction": bool(seen and seen[0][1])}


def precision_in_tree(ctx, rng, n):
    from .. import runs as R2
    from ..common import pmap

    sl = Slice("precision wrapper inside a running tree (first-hit index, stickiness; replayed through the model's wrapper)")
    n = ctx.boost(n) if hasattr(ctx, "boost") else n
    specs = []
    for _ in range(n):
        if rng.random() < 0.3:
            # an objective with NaN holes: NaN is never within the precision, whatever comparison is used
            spec = R2.rand_spec(rng, gsc={"kind": "SingularProblemPrecisionReached", "precision": float(rng.choice([0.05, 0.5, 5.0]))}, objective="holes", nlev=int(rng.choice([1, 2])),
                                engines={l: R2.NAN_SAFE_ENGINES for l in range(4)}, maximize=False, max_steps=6, cutoff=None)
        else:
            spec = R2.rand_spec(rng, gsc={"kind": "SingularProblemPrecisionReached", "precision": float(rng.choice([0.05, 0.5, 5.0, 50.0]))}, objective=str(rng.choice(["sphere", "four", "plateau0"])), maximize=False, max_steps=6, cutoff=None)
        specs.append(spec)
    lines, metas = [], []
    for spec, r in zip(specs, pmap(_prec_worker, specs, chunksize=2)):
        if r["status"] in ("env", "skip"):
            sl.skipped += 1
            continue
        if r["status"] == "crash":
            sl.violations.append({"signature": "C16/run-crashed", "detail": r["detail"], "replay": {"spec": spec}})
            continue
        sl.cases += 1
        sl.count("hit-at-construction" if r["hit_at_construction"] else ("hit-later" if r["final"][0] else "never-hit"))
        if r["final"][0]:
            sl.nontrivial.add(R2.spec_id(spec))
        for m in r["found"]:
            sl.violations.append({"signature": "C16/precision-flag-or-ETA-not-first-hit", "detail": m, "replay": {"spec": spec}})
        vs = r["answers"]
        if vs and len(vs) < 4000 and all(v == v for v in vs):
            lines.append(f"wrap 0 1 P 0 {fr(r['opt'])} {fr(r['eps'])} - 0 {len(vs)} " + " ".join(fit(v) for v in vs))
            metas.append((spec, r["final"]))
    got = run_driver(lines)
    for line, g, (spec, (hit, eta, nev)) in zip(lines, got, metas):
        last = g.split(" || ")[-1].split(" | ")[-1].strip()
        want = f"P {nev} {eta if eta is not None else 'none'} {1 if hit else 0}"
        if last != want:
            sl.disagreements.append({"op": line[:1500], "impl": want, "model": last, "spec": spec})
    if specs:
        sl.sample(R2.describe(specs[0]))
    return sl


def _run_linear(ctx):
    sl = Slice("wrapper-stacks-call-by-call")
    run_cases(ctx, ctx.rng(1), ctx.size(3000, 40000), 4, sl)
    if ctx.thorough:
        run_cases(ctx, ctx.rng(2), 10000, 8, sl)
        ex = Slice("wrapper-stacks-exhaustive(depth<=3,len<=4)")
        import itertools

        it = exhaustive_cases()
        while True:
            chunk = list(itertools.islice(it, 50000))
            if not chunk:
                break
            run_cases(ctx, None, 0, 0, ex, cases=chunk)
        return [sl, ex]
    return [sl]


def search(ctx, broken):
    sl = Slice("search")
    run_cases(ctx, ctx.rng(77), 20000, 6, sl)
    return sl.violations
