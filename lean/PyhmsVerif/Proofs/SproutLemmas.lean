import PyhmsVerif.Model.Sprout
import PyhmsVerif.Proofs.FitOrder
import Batteries.Data.List.Perm
/-!
Lemmas about the sprout filters: the best-first sort, the `LevelLimit` count bound, and
"filters only ever remove candidates".
-/
namespace NBC
open Select

theorem insertDesc_perm (mx : Bool) (a : Nat × Ind) (l : List (Nat × Ind)) :
    (insertDesc mx a l).Perm (a :: l) := by
  induction l with
  | nil => simp [insertDesc]
  | cons b l ih =>
    simp only [insertDesc]
    split
    · exact (List.Perm.cons b ih).trans (List.Perm.swap a b l)
    · exact List.Perm.refl _

theorem sortDesc_perm (mx : Bool) (l : List (Nat × Ind)) : (sortDesc mx l).Perm l := by
  induction l with
  | nil => simp [sortDesc]
  | cons a l ih =>
    simp only [sortDesc]
    exact (insertDesc_perm mx a _).trans (List.Perm.cons a ih)

/-- best first: no element is worse than a later one -/
def SortedDesc (mx : Bool) (l : List (Nat × Ind)) : Prop :=
  l.Pairwise fun a b => worse mx a.2 b.2 = false

theorem insertDesc_sorted (mx : Bool) (a : Nat × Ind) (l : List (Nat × Ind)) (h : SortedDesc mx l) :
    SortedDesc mx (insertDesc mx a l) := by
  induction l with
  | nil => simp [insertDesc, SortedDesc]
  | cons b l ih =>
    simp only [SortedDesc, List.pairwise_cons] at h
    simp only [insertDesc]
    by_cases hw : worse mx a.2 b.2 = true
    · simp only [hw, ↓reduceIte, SortedDesc, List.pairwise_cons]
      refine ⟨?_, ih h.2⟩
      intro x hx
      have := (insertDesc_perm mx a l).subset hx
      rcases List.mem_cons.mp this with rfl | hx'
      · exact Fit.worse_asymm hw
      · exact h.1 x hx'
    · have hw' : worse mx a.2 b.2 = false := by simpa using hw
      simp only [hw, Bool.false_eq_true, ↓reduceIte, SortedDesc, List.pairwise_cons]
      refine ⟨?_, h.1, h.2⟩
      intro x hx
      rcases List.mem_cons.mp hx with rfl | hx'
      · exact hw'
      · exact Fit.not_worse_trans (a := x.2.fit) (b := b.2.fit) (c := a.2.fit) (h.1 x hx') hw'

theorem sortDesc_sorted (mx : Bool) (l : List (Nat × Ind)) : SortedDesc mx (sortDesc mx l) := by
  induction l with
  | nil => simp [sortDesc, SortedDesc]
  | cons a l ih => exact insertDesc_sorted mx a _ ih

end NBC

namespace Sprout
open Select

/-- in a best-first list, fewer than `c + 1` … precisely at most `c` elements are strictly
better than the element at index `c` -/
theorem count_better_le (mx : Bool) (l : List Ind) (hs : l.Pairwise fun a b => worse mx a b = false)
    (c : Nat) (cut : Ind) (hc : l[c]? = some cut) :
    (l.filter fun i => better mx i cut).length ≤ c := by
  induction l generalizing c with
  | nil => simp at hc
  | cons a t ih =>
    rw [List.pairwise_cons] at hs
    cases c with
    | zero =>
      simp only [List.getElem?_cons_zero, Option.some.injEq] at hc
      subst hc
      have hnil : t.filter (fun i => better mx i a) = [] := by
        rw [List.filter_eq_nil_iff]
        intro x hx
        have := hs.1 x hx
        simpa [better, worse] using this
      have ha : better mx a a = false := by simp [better, Fit.worse_irrefl]
      simp only [List.filter_cons, ha, Bool.false_eq_true, ↓reduceIte, hnil, List.length_nil, Nat.le_refl]
    | succ c =>
      simp only [List.getElem?_cons_succ] at hc
      have := ih hs.2 c hc
      simp only [List.filter_cons]
      split <;> simp <;> omega

theorem levelCands_sorted (mx : Bool) (l : Nat) (cs : List Cand) :
    (levelCands mx l cs).Pairwise fun a b => worse mx a b = false := by
  unfold levelCands
  have := NBC.sortDesc_sorted mx (((cs.filter (·.level == l)).flatMap (·.inds)).map fun i => (0, i))
  exact List.Pairwise.map _ (fun _ _ h => h) this

theorem levelCands_perm (mx : Bool) (l : Nat) (cs : List Cand) :
    (levelCands mx l cs).Perm ((cs.filter (·.level == l)).flatMap (·.inds)) := by
  unfold levelCands
  have := (NBC.sortDesc_perm mx (((cs.filter (·.level == l)).flatMap (·.inds)).map fun i => (0, i))).map (·.2)
  simpa [List.map_map, Function.comp] using this

/-- total number of candidate individuals whose parent is on level `l` -/
def total (l : Nat) (cs : List Cand) : Nat := ((cs.filter (·.level == l)).flatMap (·.inds)).length

theorem total_eq_sum (l : Nat) (cs : List Cand) :
    total l cs = ((cs.filter (·.level == l)).map (·.inds.length)).sum := by
  simp [total, List.length_flatMap]

end Sprout

namespace Sprout
open Select

/-- a filter stage only removes candidates: same parents in the same order, each list of
individuals a sublist of what it was -/
def Shrinks (cs out : List Cand) : Prop :=
  List.Forall₂ (fun c c' => c'.deme = c.deme ∧ c'.level = c.level ∧ c'.nbcMean = c.nbcMean ∧ c'.inds.Subperm c.inds) cs out

theorem Shrinks.refl (cs : List Cand) : Shrinks cs cs := by
  induction cs with
  | nil => exact .nil
  | cons c cs ih => exact .cons ⟨rfl, rfl, rfl, List.Subperm.refl _⟩ ih

theorem Shrinks.trans {a b c : List Cand} (h1 : Shrinks a b) (h2 : Shrinks b c) : Shrinks a c := by
  induction h1 generalizing c with
  | nil => cases h2; exact .nil
  | cons hab _ ih =>
    cases h2 with
    | cons hbc htl =>
      exact .cons ⟨hbc.1.trans hab.1, hbc.2.1.trans hab.2.1, hbc.2.2.1.trans hab.2.2.1, hbc.2.2.2.trans hab.2.2.2⟩ (ih htl)

theorem shrinks_map_filter (p : Cand → Ind → Bool) (cs : List Cand) :
    Shrinks cs (cs.map fun c => { c with inds := c.inds.filter (p c) }) := by
  induction cs with
  | nil => exact .nil
  | cons c cs ih => exact .cons ⟨rfl, rfl, rfl, List.filter_sublist.subperm⟩ ih

theorem shrinks_map_level (mx : Bool) (l : Nat) (cut : Ind) (cs : List Cand) :
    Shrinks cs (cs.map fun c => if c.level == l then { c with inds := c.inds.filter fun i => better mx i cut } else c) := by
  induction cs with
  | nil => exact .nil
  | cons a as ih =>
    refine .cons ?_ ih
    simp only
    split
    · exact ⟨rfl, rfl, rfl, List.filter_sublist.subperm⟩
    · exact ⟨rfl, rfl, rfl, List.Subperm.refl _⟩

theorem Shrinks.total_le {cs out : List Cand} (h : Shrinks cs out) (l : Nat) : total l out ≤ total l cs := by
  induction h with
  | nil => simp [total]
  | cons hab _ ih =>
    rename_i c c' cs out
    simp only [total, List.filter_cons, hab.2.1] at ih ⊢
    split
    · simp only [List.flatMap_cons, List.length_append]
      have := hab.2.2.2.length_le
      omega
    · exact ih

theorem total_map_level (mx : Bool) (l : Nat) (cut : Ind) (cs : List Cand) (l' : Nat) :
    total l' (cs.map fun c => if c.level == l then { c with inds := c.inds.filter fun i => better mx i cut } else c)
      = if l' = l then (((cs.filter (·.level == l)).flatMap (·.inds)).filter fun i => better mx i cut).length
        else total l' cs := by
  induction cs with
  | nil => simp [total]
  | cons c cs ih =>
    simp only [total, List.map_cons, List.filter_cons] at ih ⊢
    by_cases hcl : (c.level == l) = true
    · have hl : c.level = l := by simpa using hcl
      by_cases hl' : l' = l
      · subst hl'
        simp only [hcl, ↓reduceIte, List.flatMap_cons, List.filter_append, List.length_append] at ih ⊢
        omega
      · have hne : (c.level == l') = false := by simp [hl, Ne.symm hl']
        simp only [hcl, ↓reduceIte, hne, Bool.false_eq_true, hl'] at ih ⊢
        exact ih
    · have hcl' : (c.level == l) = false := by simpa using hcl
      by_cases hl' : l' = l
      · subst hl'
        simp only [hcl', Bool.false_eq_true, ↓reduceIte] at ih ⊢
        exact ih
      · simp only [hcl', Bool.false_eq_true, ↓reduceIte, hl'] at ih ⊢
        split
        · simp only [List.flatMap_cons, List.length_append]; omega
        · exact ih

/-- **LevelLimit, one level.**  With `active ≤ limit` demes active on the target level, at
most `limit − active` candidates survive for parent level `l`; other levels are untouched;
nothing is added. -/
theorem levelLimitLevel_bound {mx : Bool} {limit active l : Nat} {cs out : List Cand}
    (h : levelLimitLevel mx limit active l cs = some out) (ha : active ≤ limit) :
    total l out ≤ limit - active ∧ (∀ l', l' ≠ l → total l' out = total l' cs) ∧ Shrinks cs out := by
  unfold levelLimitLevel at h
  split at h
  · simp at h
  · rename_i hcut
    simp only [Option.some.injEq] at h
    subst h
    refine ⟨?_, fun _ _ => rfl, Shrinks.refl _⟩
    unfold levelCut at hcut
    split at hcut
    · split at hcut <;> simp at hcut
    · rename_i hle
      have := (levelCands_perm mx l cs).length_eq
      unfold total
      omega
  · rename_i cut hcut
    simp only [Option.some.injEq] at h
    subst h
    unfold levelCut at hcut
    split at hcut
    · split at hcut
      · simp at hcut
      · rename_i c hc
        simp only [Option.some.injEq] at hcut
        subst hcut
        refine ⟨?_, ?_, ?_⟩
        · rw [total_map_level]
          simp only [↓reduceIte]
          have hperm := (levelCands_perm mx l cs).filter (fun i => better mx i c)
          rw [← hperm.length_eq]
          apply count_better_le mx _ (levelCands_sorted mx l cs) (limit - active) c
          have hnn : (limit : Int) - (active : Int) ≥ 0 := by omega
          simp only [pyIndex, hnn, ↓reduceIte] at hc
          have : ((limit : Int) - (active : Int)).toNat = limit - active := by omega
          rw [this] at hc
          exact hc
        · intro l' hl'
          rw [total_map_level]
          simp [hl']
        · exact shrinks_map_level mx l c cs
    · simp at hcut

end Sprout

namespace Sprout
open Select

theorem shrinks_map (g : Cand → Cand) (cs : List Cand)
    (hg : ∀ c, (g c).deme = c.deme ∧ (g c).level = c.level ∧ (g c).nbcMean = c.nbcMean ∧ (g c).inds.Subperm c.inds) :
    Shrinks cs (cs.map g) := by
  induction cs with
  | nil => exact .nil
  | cons c cs ih => exact .cons (hg c) ih

theorem demeLimit_subperm (mx : Bool) (limit : Nat) (inds : List Ind) :
    (demeLimit mx limit inds).Subperm inds := by
  unfold demeLimit
  split
  · have hp : ((NBC.sortDesc mx (inds.map fun i => (0, i))).map (·.2)).Perm inds := by
      have := (NBC.sortDesc_perm mx (inds.map fun i => (0, i))).map (·.2)
      simpa [List.map_map, Function.comp] using this
    exact (List.take_sublist _ _).subperm.trans hp.subperm
  · exact List.Subperm.refl _

/-- **DemeLimit keeps exactly `min(limit, available)`** -/
theorem demeLimit_length (mx : Bool) (limit : Nat) (inds : List Ind) :
    (demeLimit mx limit inds).length = min limit inds.length := by
  unfold demeLimit
  split
  · rename_i h
    have hl : (NBC.sortDesc mx (inds.map fun i => (0, i))).length = inds.length := by
      have := (NBC.sortDesc_perm mx (inds.map fun i => (0, i))).length_eq
      simpa using this
    simp only [List.length_take, List.length_map, hl]
  · rename_i h; omega

/-- LevelLimit over a list of distinct parent levels -/
theorem levelLimit_fold (mx : Bool) (limit : Nat) (act : Nat → Nat) (ls : List Nat) (hnd : ls.Nodup)
    (hact : ∀ l ∈ ls, act l ≤ limit) (cs out : List Cand)
    (h : ls.foldlM (fun (acc : List Cand) l => levelLimitLevel mx limit (act l) l acc) cs = some out) :
    (∀ l ∈ ls, total l out ≤ limit - act l) ∧ Shrinks cs out := by
  induction ls generalizing cs with
  | nil =>
    simp only [List.foldlM_nil, pure, Option.some.injEq] at h
    subst h
    exact ⟨by simp, Shrinks.refl _⟩
  | cons l ls ih =>
    simp only [List.foldlM_cons, bind, Option.bind_eq_some_iff] at h
    obtain ⟨mid, hmid, hrest⟩ := h
    have hnd' := List.nodup_cons.mp hnd
    obtain ⟨hb, hother, hs1⟩ := levelLimitLevel_bound hmid (hact l (by simp))
    obtain ⟨ihb, hs2⟩ := ih hnd'.2 (fun x hx => hact x (List.mem_cons_of_mem _ hx)) mid hrest
    refine ⟨?_, hs1.trans hs2⟩
    intro x hx
    rcases List.mem_cons.mp hx with rfl | hx
    · exact Nat.le_trans (hs2.total_le _) hb
    · exact ihb x hx

/-- **Filters only ever remove candidates.** -/
theorem applyFilter_shrinks {v : View} {env : Env} {f : Filter} {cs out : List Cand}
    (h : applyFilter v env f cs = some out) : Shrinks cs out := by
  cases f with
  | farEnough thr =>
    simp only [applyFilter, Option.some.injEq] at h
    subst h
    exact shrinks_map _ _ fun c => ⟨rfl, rfl, rfl, List.filter_sublist.subperm⟩
  | nbcFarEnough factor onlyActive =>
    simp only [applyFilter] at h
    split at h
    · simp at h
    · simp only [Option.some.injEq] at h
      subst h
      apply shrinks_map
      intro c
      split
      · split
        · exact ⟨rfl, rfl, rfl, List.filter_sublist.subperm⟩
        · exact ⟨rfl, rfl, rfl, (List.nil_sublist _).subperm⟩
      · refine ⟨rfl, rfl, rfl, ?_⟩
        simp only
        split
        · exact List.Subperm.refl _
        · exact (List.nil_sublist _).subperm
  | demeLimit limit =>
    simp only [applyFilter, Option.some.injEq] at h
    subst h
    exact shrinks_map _ _ fun c => ⟨rfl, rfl, rfl, demeLimit_subperm _ _ _⟩
  | levelLimit limit =>
    simp only [applyFilter] at h
    -- no bound on activity is needed for "only removes"
    generalize List.range (v.height - 1) = ls at h
    induction ls generalizing cs with
    | nil => simp only [List.foldlM_nil, pure, Option.some.injEq] at h; subst h; exact Shrinks.refl _
    | cons l ls ih =>
      simp only [List.foldlM_cons, bind, Option.bind_eq_some_iff] at h
      obtain ⟨mid, hmid, hrest⟩ := h
      refine Shrinks.trans ?_ (ih hrest)
      unfold levelLimitLevel at hmid
      split at hmid
      · simp at hmid
      · simp only [Option.some.injEq] at hmid; subst hmid; exact Shrinks.refl _
      · simp only [Option.some.injEq] at hmid; subst hmid; exact shrinks_map_level _ _ _ _
  | skipSame =>
    simp only [applyFilter, Option.some.injEq] at h
    subst h
    apply shrinks_map
    intro c
    split
    · exact ⟨rfl, rfl, rfl, List.Subperm.refl _⟩
    · split
      · exact ⟨rfl, rfl, rfl, List.Subperm.refl _⟩
      · exact ⟨rfl, rfl, rfl, List.filter_sublist.subperm⟩
  | mahalanobis =>
    simp only [applyFilter, Option.some.injEq] at h
    subst h
    exact shrinks_map _ _ fun c => ⟨rfl, rfl, rfl, List.filter_sublist.subperm⟩

theorem applyFilters_shrinks {v : View} {env : Env} {fs : List Filter} {cs out : List Cand}
    (h : applyFilters v env fs cs = some out) : Shrinks cs out := by
  induction fs generalizing cs with
  | nil => simp only [applyFilters, Option.some.injEq] at h; subst h; exact Shrinks.refl _
  | cons f fs ih =>
    simp only [applyFilters, Option.bind_eq_some_iff] at h
    obtain ⟨mid, h1, h2⟩ := h
    exact (applyFilter_shrinks h1).trans (ih h2)

/-- **A chain containing `LevelLimit L` leaves at most the free slots** for every parent
level, whatever the other filters and their order. -/
theorem applyFilters_levelLimit {v : View} {env : Env} {fs : List Filter} {cs out : List Cand} {L : Nat}
    (h : applyFilters v env fs cs = some out) (hmem : Filter.levelLimit L ∈ fs)
    (hact : ∀ l, l < v.height - 1 → v.activeAt (l + 1) ≤ L) :
    ∀ l, l < v.height - 1 → total l out ≤ L - v.activeAt (l + 1) := by
  induction fs generalizing cs with
  | nil => simp at hmem
  | cons f fs ih =>
    simp only [applyFilters, Option.bind_eq_some_iff] at h
    obtain ⟨mid, h1, h2⟩ := h
    rcases List.mem_cons.mp hmem with hf | hf
    · subst hf
      simp only [applyFilter] at h1
      have := levelLimit_fold v.maximize L (fun l => v.activeAt (l + 1)) (List.range (v.height - 1))
        List.nodup_range (fun l hl => hact l (List.mem_range.mp hl)) cs mid h1
      intro l hl
      exact Nat.le_trans ((applyFilters_shrinks h2).total_le l) (this.1 l (List.mem_range.mpr hl))
    · exact ih h2 hf

theorem total_filter_nonempty (l : Nat) (cs : List Cand) :
    total l (cs.filter fun c => !c.inds.isEmpty) ≤ total l cs := by
  induction cs with
  | nil => simp [total]
  | cons c cs ih =>
    simp only [total, List.filter_cons] at ih ⊢
    by_cases hne : (!c.inds.isEmpty) = true
    · simp only [hne, ↓reduceIte, List.filter_cons]
      split
      · simp only [List.flatMap_cons, List.length_append]; omega
      · exact ih
    · simp only [hne, Bool.false_eq_true, ↓reduceIte]
      split
      · simp only [List.flatMap_cons, List.length_append]; omega
      · exact ih

/-- **C08, mechanism level**: the seeds returned by a mechanism whose chain contains
`LevelLimit L` number, per parent level, at most `L` minus the demes active on the target level. -/
theorem getSeeds_levelLimit {v : View} {env : Env} {m : Mechanism} {seeds : List Cand} {L : Nat}
    (h : getSeeds v env m = some seeds) (hmem : Filter.levelLimit L ∈ m.demeFilters ++ m.treeFilters)
    (hact : ∀ l, l < v.height - 1 → v.activeAt (l + 1) ≤ L) :
    ∀ l, l < v.height - 1 → total l seeds ≤ L - v.activeAt (l + 1) := by
  simp only [getSeeds, Option.bind_eq_some_iff, Option.map_eq_some_iff] at h
  obtain ⟨g, _, cs, hcs, rfl⟩ := h
  intro l hl
  exact Nat.le_trans (total_filter_nonempty l cs) (applyFilters_levelLimit hcs hmem hact l hl)

end Sprout
