import PyhmsVerif.Model.Tree
import Mathlib.Tactic.Linarith
/-!
Frame lemmas for the tree model: what `updFirst`, `evalReq(s)`, `appendHist`,
`createDeme` and the four sub-steps change — and what they leave alone.
-/
namespace Tree

/-- how one deme may change in one step of the run -/
structure DemeStep (d d' : Deme) : Prop where
  id : d'.id = d.id
  level : d'.level = d.level
  startedAt : d'.startedAt = d.startedAt
  parent : d'.parent = d.parent
  seed : d'.seed = d.seed
  activeMono : d'.active = true → d.active = true
  frozen : d.active = false → d'.hist = d.hist ∧ d'.counter = d.counter
  histGrows : ∃ ext, d'.hist = d.hist ++ ext
  counterMono : d.counter ≤ d'.counter

theorem DemeStep.refl (d : Deme) : DemeStep d d :=
  ⟨rfl, rfl, rfl, rfl, rfl, fun h => h, fun _ => ⟨rfl, rfl⟩, ⟨[], by simp⟩, Nat.le_refl _⟩

theorem DemeStep.trans {a b c : Deme} (h1 : DemeStep a b) (h2 : DemeStep b c) : DemeStep a c := by
  refine ⟨h2.id.trans h1.id, h2.level.trans h1.level, h2.startedAt.trans h1.startedAt,
    h2.parent.trans h1.parent, h2.seed.trans h1.seed, fun h => h1.activeMono (h2.activeMono h), ?_, ?_,
    Nat.le_trans h1.counterMono h2.counterMono⟩
  · intro ha
    have hb : b.active = false := by
      cases hb : b.active with
      | false => rfl
      | true => have := h1.activeMono hb; simp [ha] at this
    exact ⟨(h2.frozen hb).1.trans (h1.frozen ha).1, (h2.frozen hb).2.trans (h1.frozen ha).2⟩
  · obtain ⟨e1, he1⟩ := h1.histGrows
    obtain ⟨e2, he2⟩ := h2.histGrows
    exact ⟨e1 ++ e2, by rw [he2, he1, List.append_assoc]⟩

/-- the deme list of a later state: the old demes (each possibly changed as `DemeStep`
allows), followed by newly created ones -/
def Ext (ds ds' : List Deme) : Prop :=
  ∃ ds1 new, ds' = ds1 ++ new ∧ List.Forall₂ DemeStep ds ds1

theorem forall2_refl (ds : List Deme) : List.Forall₂ DemeStep ds ds := by
  induction ds with
  | nil => exact .nil
  | cons d ds ih => exact .cons (DemeStep.refl d) ih

theorem Ext.refl (ds : List Deme) : Ext ds ds := ⟨ds, [], by simp, forall2_refl ds⟩

theorem forall2_trans {as bs cs : List Deme} (h1 : List.Forall₂ DemeStep as bs)
    (h2 : List.Forall₂ DemeStep bs cs) : List.Forall₂ DemeStep as cs := by
  induction h1 generalizing cs with
  | nil => cases h2; exact .nil
  | cons hab _ ih =>
    cases h2 with
    | cons hbc htl => exact .cons (hab.trans hbc) (ih htl)

theorem forall2_append_left {as bs cs : List Deme} (h : List.Forall₂ DemeStep (as ++ bs) cs) :
    ∃ c1 c2, cs = c1 ++ c2 ∧ List.Forall₂ DemeStep as c1 ∧ List.Forall₂ DemeStep bs c2 := by
  induction as generalizing cs with
  | nil => exact ⟨[], cs, by simp, .nil, by simpa using h⟩
  | cons a as ih =>
    cases h with
    | cons hab htl =>
      obtain ⟨c1, c2, rfl, h1, h2⟩ := ih htl
      exact ⟨_ :: c1, c2, by simp, .cons hab h1, h2⟩

theorem Ext.trans {a b c : List Deme} (h1 : Ext a b) (h2 : Ext b c) : Ext a c := by
  obtain ⟨b1, nb, rfl, hab⟩ := h1
  obtain ⟨c1, nc, rfl, hbc⟩ := h2
  obtain ⟨c11, c12, rfl, hb1, _⟩ := forall2_append_left hbc
  exact ⟨c11, c12 ++ nc, by simp, forall2_trans hab hb1⟩

/-- updating the first deme with a given id -/
theorem updFirst_forall2 (id : Id) (f : Deme → Deme) (ds : List Deme)
    (hf : ∀ d, ds.find? (·.id == id) = some d → DemeStep d (f d)) :
    List.Forall₂ DemeStep ds (updFirst id f ds) := by
  induction ds with
  | nil => exact .nil
  | cons d ds ih =>
    simp only [updFirst]
    by_cases h : (d.id == id) = true
    · simp only [h, ↓reduceIte]
      exact .cons (hf d (by simp [List.find?, h])) (forall2_refl ds)
    · simp only [h, Bool.false_eq_true, ↓reduceIte]
      refine .cons (DemeStep.refl d) (ih fun d' hd' => hf d' ?_)
      simp [List.find?, h, hd']

theorem updFirst_length (id : Id) (f : Deme → Deme) (ds : List Deme) :
    (updFirst id f ds).length = ds.length := by
  induction ds with
  | nil => rfl
  | cons d ds ih => simp only [updFirst]; split <;> simp [ih]

/-- `find?` after `updFirst` with an id-preserving function -/
theorem find_updFirst (id : Id) (f : Deme → Deme) (ds : List Deme) (hid : ∀ d, (f d).id = d.id) :
    (updFirst id f ds).find? (·.id == id) = (ds.find? (·.id == id)).map f := by
  induction ds with
  | nil => rfl
  | cons d ds ih =>
    simp only [updFirst]
    by_cases h : (d.id == id) = true
    · simp [h, List.find?, hid]
    · simp only [h, Bool.false_eq_true, ↓reduceIte, List.find?]
      exact ih

end Tree

namespace Tree

theorem updFirst_comp (id : Id) (f g : Deme → Deme) (ds : List Deme) (hg : ∀ d, (g d).id = d.id) :
    updFirst id f (updFirst id g ds) = updFirst id (f ∘ g) ds := by
  induction ds with
  | nil => rfl
  | cons d ds ih =>
    simp only [updFirst]
    by_cases h : (d.id == id) = true
    · simp [h, updFirst, hg]
    · simp only [h, Bool.false_eq_true, ↓reduceIte, updFirst]
      rw [ih]

def bump (k : Nat) (d : Deme) : Deme := { d with counter := d.counter + k }

theorem updFirst_bump_zero (id : Id) (ds : List Deme) : updFirst id (bump 0) ds = ds := by
  induction ds with
  | nil => rfl
  | cons d ds ih => simp only [updFirst]; split <;> simp [bump, ih]

/-- everything `evalReqs` does to the state -/
structure EvalEffect (t t' : T) (id : Id) (lvl : Nat) (counts : Bool) (nReq : Nat) : Prop where
  cfg : t'.cfg = t.cfg
  metaepoch : t'.metaepoch = t.metaepoch
  levels : t'.levels = t.levels
  pc : t'.pc = t.pc
  gscSeen : t'.gscSeen = t.gscSeen
  demes : t'.demes = updFirst id (bump (if counts then nReq else 0)) t.demes
  log : ∃ invs : List Inv, t'.log = t.log ++ invs ∧ invs.length ≤ nReq ∧
    (∀ i ∈ invs, i.level = lvl ∧ i.deme = id ∧
      ∃ lc, t.cfg.levels[lvl]? = some lc ∧ inBox lc.box i.x = true) ∧
    (t'.refused = false → invs.length = nReq)
  refusedMono : t.refused = true → t'.refused = true

theorem evalReqCore_effect {t t' : T} {id : Id} {lvl : Nat} {counts : Bool} {r : Req} {i : Ind}
    {lc : LevelCfg} {res : List Problem.Wrapper × Fit × Bool}
    (hlc : t.cfg.levels[lvl]? = some lc) (hboxok : r.v.isSome = true → inBox lc.box r.x = true)
    (h : evalReqCore t id lvl counts r lc res = .ok (t', i)) : EvalEffect t t' id lvl counts 1 := by
  unfold evalReqCore at h
  split at h
  · simp at h
  · rename_i hfw
    simp only [Except.ok.injEq, Prod.mk.injEq] at h
    obtain ⟨ht, _⟩ := h
    subst ht
    have hsome : res.2.2 = r.v.isSome := by simpa using hfw
    refine { cfg := ?_, metaepoch := ?_, levels := ?_, pc := ?_, gscSeen := ?_, demes := ?_, log := ?_, refusedMono := ?_ }
    · by_cases hc : counts = true <;> by_cases hs : r.v.isSome = true <;> simp [hc, hs, hsome, T.update]
    · by_cases hc : counts = true <;> by_cases hs : r.v.isSome = true <;> simp [hc, hs, hsome, T.update]
    · by_cases hc : counts = true <;> by_cases hs : r.v.isSome = true <;> simp [hc, hs, hsome, T.update]
    · by_cases hc : counts = true <;> by_cases hs : r.v.isSome = true <;> simp [hc, hs, hsome, T.update]
    · by_cases hc : counts = true <;> by_cases hs : r.v.isSome = true <;> simp [hc, hs, hsome, T.update]
    · by_cases hc : counts = true <;> by_cases hs : r.v.isSome = true <;>
        simp [hc, hs, hsome, T.update, updFirst_bump_zero] <;> rfl
    · by_cases hs : r.v.isSome = true
      · refine ⟨[⟨lvl, id, r.x, res.2.1⟩], ?_, by simp, ?_, by simp⟩
        · by_cases hc : counts = true <;> simp [hc, hs, hsome, T.update]
        · intro inv hinv
          simp only [List.mem_singleton] at hinv
          subst hinv
          exact ⟨rfl, rfl, lc, hlc, hboxok hs⟩
      · refine ⟨[], ?_, by simp, by simp, ?_⟩
        · by_cases hc : counts = true <;> simp [hc, hs, hsome, T.update]
        · by_cases hc : counts = true <;> simp [hc, hs, hsome, T.update]
    · intro hr
      by_cases hc : counts = true <;> by_cases hs : r.v.isSome = true <;> simp [hc, hs, hsome, T.update, hr]

theorem evalReq_effect {t t' : T} {id : Id} {lvl : Nat} {counts : Bool} {r : Req} {i : Ind}
    (h : evalReq t id lvl counts r = .ok (t', i)) : EvalEffect t t' id lvl counts 1 := by
  unfold evalReq at h
  split at h
  · simp at h
  · rename_i lc hlc
    split at h
    · simp at h
    · rename_i hbox
      exact evalReqCore_effect hlc (fun hs => by simpa [hs] using hbox) h

end Tree

namespace Tree

theorem bump_comp (a b : Nat) : bump a ∘ bump b = bump (b + a) := by
  funext d; simp [bump, Nat.add_assoc]

theorem EvalEffect.zero (t : T) (id : Id) (lvl : Nat) (counts : Bool) : EvalEffect t t id lvl counts 0 := by
  refine ⟨rfl, rfl, rfl, rfl, rfl, ?_, ⟨[], by simp, by simp, by simp, by simp⟩, fun h => h⟩
  cases counts <;> simp [updFirst_bump_zero]

theorem EvalEffect.comp {t t1 t2 : T} {id : Id} {lvl : Nat} {counts : Bool} {a b : Nat}
    (h1 : EvalEffect t t1 id lvl counts a) (h2 : EvalEffect t1 t2 id lvl counts b) :
    EvalEffect t t2 id lvl counts (a + b) := by
  obtain ⟨i1, hl1, hn1, hp1, hr1⟩ := h1.log
  obtain ⟨i2, hl2, hn2, hp2, hr2⟩ := h2.log
  refine ⟨h2.cfg.trans h1.cfg, h2.metaepoch.trans h1.metaepoch, h2.levels.trans h1.levels,
    h2.pc.trans h1.pc, h2.gscSeen.trans h1.gscSeen, ?_, ?_, fun h => h2.refusedMono (h1.refusedMono h)⟩
  · rw [h2.demes, h1.demes, updFirst_comp _ _ _ _ (by intro d; rfl), bump_comp]
    cases counts <;> simp
  · refine ⟨i1 ++ i2, by rw [hl2, hl1, List.append_assoc], by simp; omega, ?_, ?_⟩
    · intro i hi
      rcases List.mem_append.mp hi with hi | hi
      · exact hp1 i hi
      · obtain ⟨a1, a2, lc, hlc, hb⟩ := hp2 i hi
        exact ⟨a1, a2, lc, by rw [← h1.cfg]; exact hlc, hb⟩
    · intro hr
      have hr1' : t1.refused = false := by
        cases h : t1.refused with
        | false => rfl
        | true => have := h2.refusedMono h; simp [hr] at this
      simp [hr1 hr1', hr2 hr]

theorem evalReqs_effect {t t' : T} {id : Id} {lvl : Nat} {counts : Bool} {rs : List Req} {is : List Ind}
    (h : evalReqs t id lvl counts rs = .ok (t', is)) : EvalEffect t t' id lvl counts rs.length := by
  induction rs generalizing t is with
  | nil =>
    simp only [evalReqs, Except.ok.injEq, Prod.mk.injEq] at h
    obtain ⟨rfl, _⟩ := h
    exact EvalEffect.zero t id lvl counts
  | cons r rs ih =>
    simp only [evalReqs, bind, Except.bind] at h
    split at h
    · simp at h
    · rename_i p hp
      obtain ⟨t1, i1⟩ := p
      split at h
      · simp at h
      · rename_i q hq
        obtain ⟨t2, is2⟩ := q
        simp only [pure, Except.pure, Except.ok.injEq, Prod.mk.injEq] at h
        obtain ⟨rfl, _⟩ := h
        have e1 := evalReq_effect hp
        have e2 := ih hq
        have := EvalEffect.comp e1 e2
        simpa [Nat.add_comm] using this

/-- the invocation logged while one request is served (if any) is the returned individual -/
theorem evalReq_logged {t t' : T} {id : Id} {lvl : Nat} {counts : Bool} {r : Req} {i : Ind}
    (h : evalReq t id lvl counts r = .ok (t', i)) :
    ∃ invs : List Inv, t'.log = t.log ++ invs ∧ ∀ j ∈ invs, j.deme = id ∧ (⟨j.x, j.v⟩ : Ind) = i := by
  unfold evalReq at h
  split at h
  · simp at h
  · rename_i lc hlc
    split at h
    · simp at h
    · unfold evalReqCore at h
      split at h
      · simp at h
      · simp only [Except.ok.injEq, Prod.mk.injEq] at h
        obtain ⟨rfl, rfl⟩ := h
        split
        · refine ⟨[⟨lvl, id, r.x, (Problem.evalStack t.cfg.maximize (t.stacks.getD lc.stack [])
            (r.v.getD (Fit.sentinel t.cfg.maximize))).2.1⟩], ?_, ?_⟩
          · cases counts <;> simp [T.update]
          · simp
        · refine ⟨[], ?_, by simp⟩
          cases counts <;> simp [T.update]

/-- every invocation logged while a list of requests is served is one of the returned
evaluated individuals (same point, same value), issued by this deme -/
theorem evalReqs_logged {t t' : T} {id : Id} {lvl : Nat} {counts : Bool} {rs : List Req} {is : List Ind}
    (h : evalReqs t id lvl counts rs = .ok (t', is)) :
    ∃ invs : List Inv, t'.log = t.log ++ invs ∧ ∀ i ∈ invs, i.deme = id ∧ (⟨i.x, i.v⟩ : Ind) ∈ is := by
  induction rs generalizing t is with
  | nil =>
    simp only [evalReqs, Except.ok.injEq, Prod.mk.injEq] at h
    obtain ⟨rfl, rfl⟩ := h
    exact ⟨[], by simp, by simp⟩
  | cons r rs ih =>
    simp only [evalReqs, bind, Except.bind] at h
    split at h
    · simp at h
    · rename_i p hp
      obtain ⟨t1, i1⟩ := p
      split at h
      · simp at h
      · rename_i q hq
        obtain ⟨t2, is2⟩ := q
        simp only [pure, Except.pure, Except.ok.injEq, Prod.mk.injEq] at h
        obtain ⟨rfl, rfl⟩ := h
        obtain ⟨invs2, hl2, hm2⟩ := ih hq
        obtain ⟨invs1, hl1, hm1⟩ := evalReq_logged hp
        refine ⟨invs1 ++ invs2, by rw [hl2, hl1, List.append_assoc], ?_⟩
        intro i hi
        rcases List.mem_append.mp hi with hi | hi
        · exact ⟨(hm1 i hi).1, by rw [(hm1 i hi).2]; simp⟩
        · exact ⟨(hm2 i hi).1, List.mem_cons_of_mem _ (hm2 i hi).2⟩

end Tree

namespace Tree

/-- same deme, except possibly for its list of children -/
def SameBC (d d' : Deme) : Prop := ∃ cs, d' = { d with children := cs }

theorem SameBC.refl (d : Deme) : SameBC d d := ⟨d.children, rfl⟩
theorem SameBC.trans {a b c : Deme} (h1 : SameBC a b) (h2 : SameBC b c) : SameBC a c := by
  obtain ⟨c1, rfl⟩ := h1
  obtain ⟨c2, rfl⟩ := h2
  exact ⟨c2, rfl⟩
theorem SameBC.demeStep {d d' : Deme} (h : SameBC d d') : DemeStep d d' := by
  obtain ⟨cs, rfl⟩ := h
  exact ⟨rfl, rfl, rfl, rfl, rfl, fun h => h, fun _ => ⟨rfl, rfl⟩, ⟨[], by simp⟩, Nat.le_refl _⟩

theorem forall2_sameBC_refl (ds : List Deme) : List.Forall₂ SameBC ds ds := by
  induction ds with
  | nil => exact .nil
  | cons d ds ih => exact .cons (SameBC.refl d) ih

theorem forall2_sameBC_trans {as bs cs : List Deme} (h1 : List.Forall₂ SameBC as bs)
    (h2 : List.Forall₂ SameBC bs cs) : List.Forall₂ SameBC as cs := by
  induction h1 generalizing cs with
  | nil => cases h2; exact .nil
  | cons hab _ ih =>
    cases h2 with
    | cons hbc htl => exact .cons (hab.trans hbc) (ih htl)

theorem forall2_sameBC_demeStep {as bs : List Deme} (h : List.Forall₂ SameBC as bs) :
    List.Forall₂ DemeStep as bs := by
  induction h with
  | nil => exact .nil
  | cons hab _ ih => exact .cons hab.demeStep ih

theorem forall2_sameBC_append_left {as bs cs : List Deme} (h : List.Forall₂ SameBC (as ++ bs) cs) :
    ∃ c1 c2, cs = c1 ++ c2 ∧ List.Forall₂ SameBC as c1 ∧ List.Forall₂ SameBC bs c2 := by
  induction as generalizing cs with
  | nil => exact ⟨[], cs, by simp, .nil, by simpa using h⟩
  | cons a as ih =>
    cases h with
    | cons hab htl =>
      obtain ⟨c1, c2, rfl, h1, h2⟩ := ih htl
      exact ⟨_ :: c1, c2, by simp, .cons hab h1, h2⟩

/-- what `createDeme` does -/
structure CreateEffect (t t' : T) (parent : Option Deme) (seed : Option Ind) : Prop where
  cfg : t'.cfg = t.cfg
  metaepoch : t'.metaepoch = t.metaepoch
  pc : t'.pc = t.pc
  gscSeen : t'.gscSeen = t.gscSeen
  refusedMono : t.refused = true → t'.refused = true
  levels : t'.levels = t.levels.set (match parent with | some p => p.level + 1 | none => 0)
    (t.levels.getD (match parent with | some p => p.level + 1 | none => 0) [] ++
      [match parent with | some p => nextChildId t p | none => []])
  demes : ∃ old d, t'.demes = old ++ [d] ∧ List.Forall₂ SameBC t.demes old ∧
    old = (match parent with
      | some p => updFirst p.id (fun x => { x with children := x.children ++ [nextChildId t p] }) t.demes
      | none => t.demes) ∧ d.children = [] ∧
    (∃ g, d.hist = [[g]] ∧ ∀ i ∈ g.inds, g.evald.contains i = true ∨ d.seed = some i) ∧
    d.level = (match parent with | some p => p.level + 1 | none => 0) ∧
    d.id = (match parent with | some p => nextChildId t p | none => []) ∧
    d.active = true ∧ d.hib = false ∧ d.startedAt = t.metaepoch ∧ d.seed = seed ∧
    d.parent = parent.map (·.id) ∧
    (∃ lc, t.cfg.levels[d.level]? = some lc) ∧
    ∃ invs : List Inv, t'.log = t.log ++ invs ∧ invs.length ≤ d.counter ∧
      (∀ i ∈ invs, i.level = d.level ∧ ∃ lc, t.cfg.levels[d.level]? = some lc ∧ inBox lc.box i.x = true) ∧
      (t'.refused = false → invs.length = d.counter)
  /-- the new deme's initial population does not forget anything evaluated for it (population engines) -/
  observed : ∀ d g, t'.demes.getLast? = some d → d.hist = [[g]] → ∀ lc, t.cfg.levels[d.level]? = some lc →
    lc.engine ≠ .localOpt → observedOk t.cfg.maximize g.evald g.inds = true
  /-- what was logged while the deme was built was evaluated for its initial population -/
  logged : ∃ invs : List Inv, t'.log = t.log ++ invs ∧ ∀ d g, t'.demes.getLast? = some d → d.hist = [[g]] →
    ∀ i ∈ invs, i.deme = d.id ∧ (⟨i.x, i.v⟩ : Ind) ∈ g.evald

theorem addChild_forall2 (pid cid : Id) (ds : List Deme) :
    List.Forall₂ SameBC ds (updFirst pid (fun x => { x with children := x.children ++ [cid] }) ds) := by
  induction ds with
  | nil => exact .nil
  | cons d ds ih =>
    simp only [updFirst]
    split
    · exact .cons ⟨_, rfl⟩ (forall2_sameBC_refl ds)
    · exact .cons (SameBC.refl d) ih

theorem initPopOk_shape {mx : Bool} {lc : LevelCfg} {seed : Option Ind} {env : NewEnv} {ev : List Ind} {u : Unit}
    (h : initPopOk mx lc seed env ev = .ok u) : initPopShape lc seed env ev = .ok () := by
  unfold initPopOk at h
  split at h
  · simp at h
  · rename_i u' hs
    cases u'
    exact hs

theorem initPopOk_observed {mx : Bool} {lc : LevelCfg} {seed : Option Ind} {env : NewEnv} {ev : List Ind} {u : Unit}
    (h : initPopOk mx lc seed env ev = .ok u) (hl : lc.engine ≠ .localOpt) : observedOk mx ev env.pop = true := by
  unfold initPopOk at h
  split at h
  · simp at h
  · split at h
    · simp at h
    · rename_i hc
      have : (lc.engine != Engine.localOpt) = true := by simpa using hl
      simpa [this] using hc

/-- every member of an accepted initial population was evaluated while the deme was built —
except a local deme's starting point, which is its seed -/
theorem initPopOk_first {mx : Bool} {lc : LevelCfg} {seed : Option Ind} {env : NewEnv} {ev : List Ind} {u : Unit}
    (h : initPopOk mx lc seed env ev = .ok u) : ∀ i ∈ env.pop, ev.contains i = true ∨ seed = some i := by
  intro i hi
  have h := initPopOk_shape h
  unfold initPopShape at h
  split at h
  · split at h
    · split at h
      · simp at h
      · rename_i hc
        simp only [Bool.or_eq_true, bne_iff_ne, ne_eq, Bool.not_eq_eq_eq_not, Bool.not_true, not_or,
          Decidable.not_not, Bool.not_eq_false] at hc
        right
        rw [hc.1] at hi
        simp only [List.mem_singleton] at hi
        rw [hi]
    · simp at h
  · split at h
    · simp at h
    · rename_i hall
      left
      simp only [Bool.not_eq_true', Bool.not_eq_false, List.all_eq_true] at hall
      exact hall i hi

theorem createDeme_effect {t t' : T} {parent : Option Deme} {seed : Option Ind} {env : NewEnv}
    (h : createDeme t parent seed env = .ok t') : CreateEffect t t' parent seed := by
  unfold createDeme at h
  simp only [] at h
  split at h
  · simp at h
  · rename_i lc hlc
    split at h
    · simp at h
    · rename_i t1 ev0 hev
      split at h
      · simp at h
      · simp only [Except.ok.injEq] at h
        subst h
        have e := evalReqs_effect hev
        obtain ⟨invs, hlog, hn, hp, hr⟩ := e.log
        have hd1 : t1.demes = t.demes := by
          have := e.demes; simpa [updFirst_bump_zero] using this
        refine ⟨e.cfg, e.metaepoch, e.pc, e.gscSeen, e.refusedMono, by simp only [e.levels]; cases parent <;> rfl, ?_, ?obs, ?logd⟩
        case logd =>
          obtain ⟨invs', hl', hm'⟩ := evalReqs_logged hev
          refine ⟨invs', hl', ?_⟩
          intro d g hlast hhist i hi
          simp only [List.getLast?_append, List.getLast?_singleton, Option.some_or, Option.some.injEq] at hlast
          subst hlast
          simp only [List.cons.injEq, and_true] at hhist
          subst hhist
          exact ⟨(hm' i hi).1, List.mem_append_left _ (hm' i hi).2⟩
        case obs =>
          rename_i hok
          intro d g hlast hhist lc' hlc' hne
          simp only [List.getLast?_append, List.getLast?_singleton, Option.some_or, Option.some.injEq] at hlast
          subst hlast
          simp only [List.cons.injEq, and_true] at hhist
          subst hhist
          simp only [] at hlc'
          rw [hlc] at hlc'
          cases hlc'
          exact initPopOk_observed hok hne
        refine ⟨_, _, rfl, ?sbc, ?oldeq, rfl, ⟨_, rfl, ?first⟩, rfl, rfl, rfl, rfl, rfl, rfl, rfl, ⟨lc, hlc⟩, invs, hlog, ?_, ?_, ?_⟩
        case first =>
          rename_i hok
          exact initPopOk_first hok
        case oldeq =>
          cases parent with
          | none => simp only [hd1]
          | some p => simp only [hd1]
        case sbc =>
          cases parent with
          | none => simp only [hd1]; exact forall2_sameBC_refl _
          | some p => simp only [hd1]; exact addChild_forall2 _ _ _
        · by_cases hl : lc.engine = .localOpt
          · -- a local deme may issue requests in the model only if `initPopOk` accepted: it requires none
            simp only [hl, beq_self_eq_true, ↓reduceIte]
            rename_i hok
            have hok := initPopOk_shape hok
            cases seed with
            | none => simp [initPopShape, hl] at hok
            | some s =>
              simp only [initPopShape, hl, beq_self_eq_true, ↓reduceIte] at hok
              split at hok
              · simp at hok
              · rename_i hc
                simp only [Bool.or_eq_true, bne_iff_ne, ne_eq, Bool.not_eq_eq_eq_not, Bool.not_true, not_or,
                  Decidable.not_not, Bool.not_eq_false] at hc
                have : env.reqs = [] := by simpa using hc.2
                rw [this] at hn
                simp only [List.length_nil] at hn
                omega
          · have : (lc.engine == Engine.localOpt) = false := by simpa using hl
            simp only [this, Bool.false_eq_true, ↓reduceIte]
            exact hn
        · intro i hi
          obtain ⟨a, _, lc', hlc', hb⟩ := hp i hi
          exact ⟨a, lc', hlc', hb⟩
        · intro hrf
          by_cases hl : lc.engine = .localOpt
          · simp only [hl, beq_self_eq_true, ↓reduceIte]
            rename_i hok
            have hok := initPopOk_shape hok
            cases seed with
            | none => simp [initPopShape, hl] at hok
            | some s =>
              simp only [initPopShape, hl, beq_self_eq_true, ↓reduceIte] at hok
              split at hok
              · simp at hok
              · rename_i hc
                simp only [Bool.or_eq_true, bne_iff_ne, ne_eq, Bool.not_eq_eq_eq_not, Bool.not_true, not_or,
                  Decidable.not_not, Bool.not_eq_false] at hc
                have : env.reqs = [] := by simpa using hc.2
                rw [this] at hn
                simp only [List.length_nil] at hn
                omega
          · have : (lc.engine == Engine.localOpt) = false := by simpa using hl
            simp only [this, Bool.false_eq_true, ↓reduceIte]
            exact hr hrf

end Tree
