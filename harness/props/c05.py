"""C05 — run() stops exactly at the global stop condition, with a bounded wind-down

Theorems: lean/PyhmsVerif/Props/C05.lean (about the tree model lean/PyhmsVerif/Model/Tree.lean).
Tie to /repo: trace refinement — real runs are re-executed by `Tree.step`, state dumps and
sprout-stage outputs are diffed (harness/refine.py); only disagreements that bear on this
property count.  Direct monitor of the property on the same kind of runs (harness/monitors.py).
"""
from .. import refine, runs

MODULE = 'PyhmsVerif.Props.C05Exact'
THEOREMS = ['C05.C05_metaepoch_count', 'C05.C05_returns_iff_true', 'C05.C05_boundary_only_consult', 'C05.C05_done_is_final', 'C05.C05_no_sprout_after_true', 'C05.C05_winddown', 'C05.C05_after_true', 'C05.C05_winddown_bound', 'C05.stuck_after_true', 'C05.C05_metaepochLimit_exact', 'C05.C05_dontRun_zero', 'C05.C05_capped', 'C05.done_only_by_true_consult', 'Witness.run_done']
LEVEL = 'proof'
LEVEL_TEXT = 'Theorems over all event sequences of the small-step model of run(): the metaepoch counter is incremented exactly by the loop-head consults that came out false; run returns iff the consult at a boundary is true; at a boundary nothing else can happen; nothing happens after return; no deme is created once the condition was observed true; after that a deme performs at most the first generation of its metaepoch. Tie: trace refinement of DemeTree.run() itself (not a stepping loop) over every shipped GSC kind, with evaluation limits landing inside generations and inside new demes initial populations. NEW (run level): C05_after_true — from any state in which the condition has been observed true, no accepted continuation of any length starts another metaepoch or sprouts a deme; C05_winddown_bound — bounded wind-down: the number of further accepted generation / local-search events is at most the length of the pending schedule (one per deme still scheduled). NEW: C05_metaepochLimit_exact — for every run of a freshly constructed tree whose global stop condition is MetaepochLimit(n), whatever the engines, the sprouting and the local stop conditions do, the counter equals n when run() returns (inductive LimitInv; done_only_by_true_consult: only a loop-head consult with a true verdict ends a run); C05_dontRun_zero; C05_capped (any composite containing a metaepoch limit, as the harness uses, never starts more than n metaepochs). Witness.run_done: a concrete accepted run meets the hypotheses.'
LEVEL_NOTE = 'Trusted: Lean kernel + standard axioms; the hand-written tree model (Tree.step) is tied to DemeTree.run by trace refinement on sampled runs (every run is re-executed by the model, dumps and sprout stages diffed); numerical engines (NumPy RNG, cma, scipy), objective values and user-defined stop-condition verdicts are environment; monitors trusted as failing-input search. User-defined global stop conditions are covered only if monotone (a condition that turns false again is rejected by the model and reported).'
TECHNIQUE = "Lean 4 theorems (inductive invariants of the tree machine Tree.step, proved for all configurations and event sequences) tied to the code by trace refinement (Tree.step re-executes real runs; engine generations replayed bit-exactly by the engine model) + direct monitors as failing-input search"
RULE = "case = one traced run of a random configuration (1-3 levels, engine per level from the full list, every shipped GSC/LSC kind plus user-defined ones, both stock sprout mechanisms and user-composed chains, hibernation on/off, both directions, decimal boxes, optional cutoff/precision/stats wrappers, shared or per-level problems); non-trivial = run with >= 2 demes and >= 2 metaepochs; distinct by configuration hash"
ASSUMPTIONS = ["objective is deterministic and never returns NaN", "runs are capped at 12 metaepochs by a user-level composite stop condition"]
FORCE = None


def shaped(rng):
    """half of the runs: evaluation-based conditions with small limits (they fire inside generations and inside
    the initial population of fresh demes), multi-generation levels"""
    if rng.random() < 0.5:
        k = int(rng.integers(0, 3))
        lim = int(rng.integers(30, 260))
        g = [{"kind": "SingularProblemEvalLimitReached", "limit": lim}, {"kind": "FitnessEvalLimitReached", "limit": lim, "weights": str(rng.choice(["equal", "list"]))}, {"kind": "User", "evals": lim, "metaepochs": 12, "look": False}][k]
        return {"gsc": g, "nlev": int(rng.choice([2, 2, 3])), "min_generations": 3}
    return {}

PID = "C05"


def _shared_condition(rng):
    kind = str(rng.choice(["FitnessEvalLimitReached", "FitnessEvalLimitReached", "SingularProblemEvalLimitReached", "NoActiveNonrootDemes"]))
    gsc = {"kind": kind, "limit": int(rng.integers(80, 400)), "weights": str(rng.choice(["root", "equal", "list"]))} if "Limit" in kind else {"kind": kind, "n": int(rng.integers(0, 2))}
    lsc = {"kind": "MetaepochLimit", "limit": 2}
    return {"gsc": gsc, "prior_tree": True, "prior_gsc": True, "nlev": int(rng.choice([2, 2, 3])), "lsc": {1: lsc, 2: lsc}, "cutoff": None}


def _precision_nan(rng):
    return {"gsc": {"kind": "SingularProblemPrecisionReached", "precision": float(rng.choice([0.5, 5.0, 50.0]))}, "maximize": False, "cutoff": None, "precision_wrapper": None}


def run(ctx):
    return [
        refine.refine_batch(ctx, ctx.size(120, 1500), force=shaped, pid=PID, name="trace-refinement(Tree.step vs DemeTree.run)"),
        runs.minimize_slice(ctx, PID, ctx.size(12, 150)),
        runs.monitor_batch(ctx, PID, ctx.size(250, 3000), force=shaped),
        # an objective with NaN holes (NaN is a legal value, ordered as worst): the property does not depend on it
        runs.nan_monitor_batch(ctx, PID, ctx.size(30, 300), salt=57),
        # ONE stop-condition object consulted by two trees of a process (the earlier tree of `prior_tree` gets the
        # very object): an evaluation-limit condition answers for the tree it is asked about
        refine.refine_batch(ctx, ctx.size(30, 300), salt=67, force=_shared_condition, pid=PID, name="trace-refinement(one stop-condition object, two trees)"),
        runs.monitor_batch(ctx, PID, ctx.size(40, 400), salt=69, name="traced-runs-monitor-C05(one stop-condition object, two trees)", force=_shared_condition),
        # the shipped precision stop condition on an objective with NaN holes: it holds from the first answer within
        # the precision on, whatever else (NaN included) is answered before or after
        runs.nan_monitor_batch(ctx, PID, ctx.size(30, 300), salt=59, name="traced-runs-monitor-C05(precision stop condition, objective with NaN holes)", force=_precision_nan, keep_precision=True),
    ]


def search(ctx, broken):
    return runs.monitor_batch(ctx, PID, 500, salt=97, force=shaped).violations


def replay(data):
    spec = data["violation"]["replay"]["spec"]
    _, res = runs.monitored_run(spec, {PID})
    for v in res.get(PID, []):
        print(v["signature"], v["detail"])
    return not res.get(PID)
