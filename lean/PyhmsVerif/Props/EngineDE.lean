import PyhmsVerif.Model.Engine
import PyhmsVerif.Props.C17
import PyhmsVerif.Props.C12
import PyhmsVerif.Props.C13
/-!
# One generation of DE / SHADE (`Model/Engine.lean`): what every generation guarantees

For all populations, boxes, rounding functions (binary64 or ideal) and all draws of the
generators:

* `deGen_trials_inBox` / `shadeGen_trials_inBox` — parents inside the box ⇒ every trial genome
  lies inside the box (C01 for DE / SHADE without an assumption about the engine);
* `deGen_requests` — the objective is invoked exactly once per trial row that differs from
  its parent row, in row order, and the values are stored on those rows (C03 / C02);
* `deGen_carry` — a trial that keeps a fitness without being evaluated *is* its parent
  (same genome, same fitness) (C02);
* `deGen_trial_genomes_from_parents` … every new individual is its row's parent or its row's
  trial (C11), `deGen_size` (C12);
* `deGen_collapsed` — a population that has collapsed to one point (of the box) produces no
  evaluation at all and reproduces itself: the mechanism of known finding D19;
* `deGen_mirror` — maximising `f` is minimising `−f`, generation by generation (C13).
-/
namespace EngineDE
open Engine Repair F64 Select

/-- a genome inside a box, coordinate by coordinate -/
def InBox (box : Box) (g : Genome) : Prop :=
  g.length = box.length ∧ ∀ i (hi : i < g.length) (hb : i < box.length), (box[i]).1 ≤ g[i] ∧ g[i] ≤ (box[i]).2

def BoxOk (box : Box) : Prop := ∀ b ∈ box, b.1 ≤ b.2

/-! ### `seqOpt` -/

theorem seqOpt_spec {α : Type} : ∀ (l : List (Option α)) (ys : List α), seqOpt l = some ys →
    ys.length = l.length ∧ ∀ i (h1 : i < l.length) (h2 : i < ys.length), l[i] = some ys[i]
  | [], ys, h => by
    simp only [seqOpt, Option.some.injEq] at h
    subst h; simp
  | none :: l, ys, h => by simp [seqOpt] at h
  | some a :: l, ys, h => by
    simp only [seqOpt, Option.map_eq_some_iff] at h
    obtain ⟨zs, hz, rfl⟩ := h
    obtain ⟨hl, hi⟩ := seqOpt_spec l zs hz
    refine ⟨by simp [hl], ?_⟩
    intro i h1 h2
    cases i with
    | zero => simp
    | succ j =>
      simp only [List.getElem_cons_succ]
      exact hi j (by simpa using h1) (by simpa using h2)

/-! ### repair of a row -/

theorem repairRow_inBox (m : Method) (r : Rounding) (box : Box) (x y : Genome) (hbox : BoxOk box)
    (hx : x.length = box.length) (h : repairRow m r box x = some y) : InBox box y := by
  unfold repairRow at h
  obtain ⟨hl, hi⟩ := seqOpt_spec _ _ h
  simp only [List.length_map, List.length_zip, hx, Nat.min_self] at hl
  refine ⟨hl, ?_⟩
  intro i h1 hb
  have h2 : i < ((box.zip x).map fun p => repair m r p.1.1 p.1.2 p.2).length := by
    simp [hx]; exact hb
  have := hi i h2 h1
  simp only [List.getElem_map, List.getElem_zip] at this
  exact C17.repair_inBox m r _ _ _ _ (hbox _ (List.getElem_mem hb)) this

theorem repairRow_inside (m : Method) (r : Rounding) (box : Box) (x y : Genome)
    (hx : InBox box x) (h : repairRow m r box x = some y) : y = x := by
  unfold repairRow at h
  obtain ⟨hl, hi⟩ := seqOpt_spec _ _ h
  simp only [List.length_map, List.length_zip, hx.1, Nat.min_self] at hl
  apply List.ext_getElem (by rw [hl, hx.1])
  intro i h1 h2
  have hb : i < box.length := by rw [← hl]; exact h1
  have h3 : i < ((box.zip x).map fun p => repair m r p.1.1 p.1.2 p.2).length := by
    simp [hx.1]; exact hb
  have := hi i h3 h1
  simp only [List.getElem_map, List.getElem_zip] at this
  obtain ⟨hlo, hhi⟩ := hx.2 i h2 hb
  exact C17.inside_unchanged m r _ _ _ _ hlo hhi this

/-! ### crossover -/

theorem crossRow_length (z : Bool) (cr : Rat) (chosen : List Rat) (mu par : Genome) :
    (crossRow z cr chosen mu par).length = min chosen.length (min mu.length par.length) := by
  simp [crossRow]

theorem crossRow_getElem (z : Bool) (cr : Rat) (chosen : List Rat) (mu par : Genome) (i : Nat)
    (h : i < (crossRow z cr chosen mu par).length) (h1 : i < mu.length) (h2 : i < par.length) :
    (crossRow z cr chosen mu par)[i] = mu[i] ∨ (crossRow z cr chosen mu par)[i] = par[i] := by
  simp only [crossRow, List.getElem_map, List.getElem_zip]
  by_cases hc : (if z = true then (0 : Rat) else chosen[i]'(by simp [crossRow] at h; omega)) ≤ cr
  · left; rw [if_pos hc]
  · right; rw [if_neg hc]

theorem crossRow_inBox (box : Box) (z : Bool) (cr : Rat) (chosen : List Rat) (mu par : Genome)
    (hc : chosen.length = box.length) (hm : InBox box mu) (hp : InBox box par) :
    InBox box (crossRow z cr chosen mu par) := by
  have hl : (crossRow z cr chosen mu par).length = box.length := by
    rw [crossRow_length, hc, hm.1, hp.1]; simp
  refine ⟨hl, ?_⟩
  intro i h1 hb
  have hmu : i < mu.length := by rw [hm.1]; exact hb
  have hpa : i < par.length := by rw [hp.1]; exact hb
  rcases crossRow_getElem z cr chosen mu par i h1 hmu hpa with h | h
  · rw [h]; exact hm.2 i hmu hb
  · rw [h]; exact hp.2 i hpa hb

theorem crossRow_same (z : Bool) (cr : Rat) (chosen : List Rat) (g : Genome)
    (hc : chosen.length = g.length) : crossRow z cr chosen g g = g := by
  apply List.ext_getElem
  · rw [crossRow_length, hc]; simp
  · intro i h1 h2
    rcases crossRow_getElem z cr chosen g g i h1 h2 h2 with h | h <;> exact h

/-! ### `trialRows`, index by index -/

theorem trialRows_length (d jrand : Nat) (crs : List Rat) (chosen : List (List Rat)) (muts pars : List Genome)
    (h1 : crs.length = pars.length) (h2 : chosen.length = pars.length) (h3 : muts.length = pars.length) :
    (trialRows d jrand crs chosen muts pars).length = pars.length := by
  simp [trialRows, h1, h2, h3]

theorem trialRows_getElem (d jrand : Nat) (crs : List Rat) (chosen : List (List Rat)) (muts pars : List Genome)
    (i : Nat) (h : i < (trialRows d jrand crs chosen muts pars).length)
    (hc : i < crs.length) (hch : i < chosen.length) (hm : i < muts.length) (hp : i < pars.length) :
    (trialRows d jrand crs chosen muts pars)[i] =
      crossRow (rowZeroed jrand d i) crs[i] chosen[i] muts[i] pars[i] := by
  simp [trialRows]

/-! ### `assignFit` -/

theorem assignFit_spec : ∀ (l : List (Genome × Ind)) (vs : List Fit) (tr : List Ind) (rq : List (Genome × Fit)),
    assignFit l vs = some (tr, rq) →
    tr.length = l.length ∧
    (∀ i (h1 : i < tr.length) (h2 : i < l.length), tr[i].genome = l[i].1 ∧
        ((l[i].1 = l[i].2.genome → tr[i].fit = l[i].2.fit) ∧
         (l[i].1 ≠ l[i].2.genome → (tr[i].genome, tr[i].fit) ∈ rq))) ∧
    rq.map (·.2) = vs ∧
    rq.map (·.1) = (l.filter fun p => decide (p.1 ≠ p.2.genome)).map (·.1)
  | [], [], tr, rq, h => by
    simp only [assignFit, Option.some.injEq, Prod.mk.injEq] at h
    obtain ⟨rfl, rfl⟩ := h
    simp
  | [], _ :: _, tr, rq, h => by simp [assignFit] at h
  | (g, p) :: l, vs, tr, rq, h => by
    unfold assignFit at h
    by_cases hg : g = p.genome
    · simp only [hg, ↓reduceIte, Option.map_eq_some_iff] at h
      obtain ⟨q, hq, hq2⟩ := h
      obtain ⟨tr', rq'⟩ := q
      simp only [Prod.mk.injEq] at hq2
      obtain ⟨rfl, rfl⟩ := hq2
      obtain ⟨hl, hi, hv, hr⟩ := assignFit_spec l vs tr' rq' hq
      refine ⟨by simp [hl], ?_, hv, ?_⟩
      · intro i h1 h2
        cases i with
        | zero => simp [hg]
        | succ j =>
          simp only [List.getElem_cons_succ]
          exact hi j (by simpa using h1) (by simpa using h2)
      · simp [hg, hr]
    · simp only [hg, ↓reduceIte] at h
      cases vs with
      | nil => simp at h
      | cons v vs =>
        simp only [Option.map_eq_some_iff] at h
        obtain ⟨q, hq, hq2⟩ := h
        obtain ⟨tr', rq'⟩ := q
        simp only [Prod.mk.injEq] at hq2
        obtain ⟨rfl, rfl⟩ := hq2
        obtain ⟨hl, hi, hv, hr⟩ := assignFit_spec l vs tr' rq' hq
        refine ⟨by simp [hl], ?_, by simp [hv], ?_⟩
        · intro i h1 h2
          cases i with
          | zero => simp [hg]
          | succ j =>
            simp only [List.getElem_cons_succ]
            obtain ⟨a, b, c⟩ := hi j (by simpa using h1) (by simpa using h2)
            exact ⟨a, b, fun hne => List.mem_cons_of_mem _ (c hne)⟩
        · simp [hg, hr]

/-! ### mutants -/

theorem donorRow_length (r : Rounding) (f : Rat) (a b c y : Genome) (h : donorRow r f a b c = some y) :
    y.length = min a.length (min b.length c.length) := by
  unfold donorRow at h
  obtain ⟨hl, _⟩ := seqOpt_spec _ _ h
  simpa using hl

theorem mutant_inBox (r : Rounding) (box : Box) (genomes : List Genome) (p : Pick) (m : Genome)
    (hbox : BoxOk box) (hg : ∀ g ∈ genomes, g.length = box.length)
    (h : mutant r box genomes p = some m) : InBox box m := by
  unfold mutant at h
  split at h
  · rename_i a b c ha hb hc
    simp only [Option.bind_eq_some_iff] at h
    obtain ⟨don, hd, hr⟩ := h
    have la := hg a (List.mem_of_getElem? ha)
    have lb := hg b (List.mem_of_getElem? hb)
    have lc := hg c (List.mem_of_getElem? hc)
    have := donorRow_length r p.f a b c don hd
    exact repairRow_inBox .reflect r box don m hbox (by rw [this, la, lb, lc]; simp) hr
  · simp at h

theorem pbestRow_length (r : Rounding) (f : Rat) (x pb r0 r1 y : Genome) (h : pbestRow r f x pb r0 r1 = some y) :
    y.length = min x.length (min pb.length (min r0.length r1.length)) := by
  unfold pbestRow at h
  obtain ⟨hl, _⟩ := seqOpt_spec _ _ h
  simpa using hl

theorem pmutant_inBox (r : Rounding) (box : Box) (genomes merged : List Genome) (i : Nat) (p : PPick) (m : Genome)
    (hbox : BoxOk box) (hg : ∀ g ∈ genomes, g.length = box.length) (hm : ∀ g ∈ merged, g.length = box.length)
    (h : pmutant r box genomes merged i p = some m) : InBox box m := by
  unfold pmutant at h
  split at h
  · rename_i x pb r0 r1 hx hpb hr0 hr1
    simp only [Option.bind_eq_some_iff] at h
    obtain ⟨don, hd, hr⟩ := h
    have l1 := hg x (List.mem_of_getElem? hx)
    have l2 := hg pb (List.mem_of_getElem? hpb)
    have l3 := hg r0 (List.mem_of_getElem? hr0)
    have l4 := hm r1 (List.mem_of_getElem? hr1)
    have := pbestRow_length r p.f x pb r0 r1 don hd
    exact repairRow_inBox .reflect r box don m hbox (by rw [this, l1, l2, l3, l4]; simp) hr
  · simp at h

/-- the shape facts `deGen` checks before it does anything -/
structure Shape (box : Box) (parents : List Ind) (picks : Nat) (chosen : List (List Rat)) (crs : List Rat) : Prop where
  picks_len : picks = parents.length
  chosen_len : chosen.length = parents.length
  crs_len : crs.length = parents.length
  genome_len : ∀ p ∈ parents, p.genome.length = box.length
  chosen_row : ∀ c ∈ chosen, c.length = box.length

theorem shapeOk_shape (box : Box) (parents : List Ind) (dr : Draws) (h : shapeOk box parents dr = true) :
    Shape box parents dr.picks.length dr.chosen dr.crs := by
  simp only [shapeOk, Bool.and_eq_true, decide_eq_true_eq, List.all_eq_true, beq_iff_eq] at h
  obtain ⟨⟨⟨⟨⟨⟨⟨_, h1⟩, h2⟩, h3⟩, _⟩, h5⟩, h6⟩, _⟩ := h
  exact ⟨h1, h2, h3, h5, h6⟩

theorem sshapeOk_shape (mx : Bool) (r : Rounding) (box : Box) (parents : List Ind) (arch : List Genome) (dr : SDraws)
    (h : sshapeOk mx r box parents arch dr = true) :
    Shape box parents dr.picks.length dr.chosen dr.crs := by
  simp only [sshapeOk, Bool.and_eq_true, decide_eq_true_eq, List.all_eq_true, beq_iff_eq] at h
  obtain ⟨⟨⟨⟨⟨⟨⟨_, h1⟩, h2⟩, h3⟩, _⟩, h5⟩, h6⟩, _⟩ := h
  exact ⟨h1, h2, h3, h5, h6⟩

/-- the generic step shared by DE and SHADE: trial rows built from in-box mutants and in-box
parents, then `assignFit` -/
theorem trials_inBox_of (box : Box) (parents : List Ind) (muts : List Genome) (d jrand : Nat)
    (chosen : List (List Rat)) (crs : List Rat) (values : List Fit) (tr : List Ind) (rq : List (Genome × Fit))
    (hs : Shape box parents muts.length chosen crs)
    (hm : ∀ m ∈ muts, InBox box m) (hp : ∀ p ∈ parents, InBox box p.genome)
    (h : assignFit ((trialRows d jrand crs chosen muts (parents.map (·.genome))).zip parents) values = some (tr, rq)) :
    ∀ t ∈ tr, InBox box t.genome := by
  obtain ⟨hl, hi, _, _⟩ := assignFit_spec _ _ _ _ h
  have hlen : (trialRows d jrand crs chosen muts (parents.map (·.genome))).length = parents.length := by
    rw [trialRows_length] <;> simp [hs.crs_len, hs.chosen_len, hs.picks_len]
  intro t ht
  obtain ⟨i, hi1, rfl⟩ := List.getElem_of_mem ht
  have hi2 : i < ((trialRows d jrand crs chosen muts (parents.map (·.genome))).zip parents).length := by
    rw [← hl]; exact hi1
  have hip : i < parents.length := by
    simp only [List.length_zip, hlen, Nat.min_self] at hi2; exact hi2
  obtain ⟨hg, _⟩ := hi i hi1 hi2
  rw [hg]
  simp only [List.getElem_zip]
  rw [trialRows_getElem d jrand crs chosen muts _ i (by rw [hlen]; exact hip) (by rw [hs.crs_len]; exact hip)
    (by rw [hs.chosen_len]; exact hip) (by rw [hs.picks_len]; exact hip) (by simpa using hip)]
  apply crossRow_inBox
  · exact hs.chosen_row _ (List.getElem_mem _)
  · exact hm _ (List.getElem_mem _)
  · simp only [List.getElem_map]
    exact hp _ (List.getElem_mem _)

theorem mutants_spec (r : Rounding) (box : Box) (genomes : List Genome) (picks : List Pick) (muts : List Genome)
    (h : mutants r box genomes picks = some muts) :
    muts.length = picks.length ∧ ∀ m ∈ muts, ∃ p ∈ picks, mutant r box genomes p = some m := by
  unfold mutants at h
  obtain ⟨hl, hi⟩ := seqOpt_spec _ _ h
  simp only [List.length_map] at hl
  refine ⟨hl, ?_⟩
  intro m hm
  obtain ⟨i, hi1, rfl⟩ := List.getElem_of_mem hm
  have := hi i (by simp; omega) hi1
  simp only [List.getElem_map] at this
  exact ⟨picks[i]'(by omega), List.getElem_mem _, this⟩

/-- **C01, DE.**  Parents inside the box ⇒ every trial genome of the generation is inside the
box — for every draw of the generators, every scaling factor and crossover probability, and
every rounding function. -/
theorem deGen_trials_inBox (mx : Bool) (r : Rounding) (box : Box) (parents : List Ind) (dr : Draws) (g : Gen)
    (hbox : BoxOk box) (hp : ∀ p ∈ parents, InBox box p.genome)
    (h : deGen mx r box parents dr = some g) : ∀ t ∈ g.trials, InBox box t.genome := by
  unfold deGen at h
  split at h
  · simp at h
  · rename_i hs
    simp only [Bool.not_eq_true, Bool.not_eq_false'] at hs
    have hs := shapeOk_shape box parents dr (by simpa using hs)
    simp only [Option.bind_eq_some_iff, Option.map_eq_some_iff] at h
    obtain ⟨muts, hm, q, hq, rfl⟩ := h
    obtain ⟨tr, rq⟩ := q
    obtain ⟨hml, hmi⟩ := mutants_spec r box _ dr.picks muts hm
    refine trials_inBox_of box parents muts box.length dr.jrand dr.chosen dr.crs dr.values tr rq
      ⟨by rw [hml]; exact hs.picks_len, hs.chosen_len, hs.crs_len, hs.genome_len, hs.chosen_row⟩ ?_ hp hq
    intro m hmm
    obtain ⟨p, _, hpm⟩ := hmi m hmm
    refine mutant_inBox r box _ p m hbox ?_ hpm
    intro gg hgg
    simp only [List.mem_map] at hgg
    obtain ⟨a, ha, rfl⟩ := hgg
    exact hs.genome_len a ha

/-- **C01, SHADE.**  The same for current-to-p-best/1 with an archive whose members have the
box's dimension (archive members are former parents). -/
theorem shadeGen_trials_inBox (mx : Bool) (r : Rounding) (box : Box) (parents : List Ind) (arch : List Genome)
    (dr : SDraws) (g : SGen)
    (hbox : BoxOk box) (hp : ∀ p ∈ parents, InBox box p.genome) (ha : ∀ a ∈ arch, a.length = box.length)
    (h : shadeGen mx r box parents arch dr = some g) : ∀ t ∈ g.trials, InBox box t.genome := by
  unfold shadeGen at h
  split at h
  · simp at h
  · rename_i hs
    have hs := sshapeOk_shape mx r box parents arch dr (by simpa using hs)
    simp only [Option.bind_eq_some_iff, Option.map_eq_some_iff] at h
    obtain ⟨muts, hm, q, hq, rfl⟩ := h
    obtain ⟨tr, rq⟩ := q
    have hgl : ∀ gg ∈ parents.map (·.genome), gg.length = box.length := by
      intro gg hgg
      simp only [List.mem_map] at hgg
      obtain ⟨a, ha, rfl⟩ := hgg
      exact hs.genome_len a ha
    have hmuts : muts.length = parents.length ∧ ∀ m ∈ muts, InBox box m := by
      split at hm
      · simp only [Option.some.injEq] at hm
        subst hm
        refine ⟨by simp, ?_⟩
        intro m hmm
        simp only [List.mem_map] at hmm
        obtain ⟨a, ha, rfl⟩ := hmm
        exact hp a ha
      · obtain ⟨hl, hi⟩ := seqOpt_spec _ _ hm
        simp only [List.length_map, List.length_zip, List.length_range, hs.picks_len, Nat.min_self] at hl
        refine ⟨hl, ?_⟩
        intro m hmm
        obtain ⟨i, hi1, rfl⟩ := List.getElem_of_mem hmm
        have := hi i (by simp [hs.picks_len]; omega) hi1
        simp only [List.getElem_map, List.getElem_zip] at this
        refine pmutant_inBox r box _ _ _ _ _ hbox hgl ?_ this
        intro gg hgg
        rcases List.mem_append.mp hgg with h1 | h1
        · exact hgl gg h1
        · exact ha gg h1
    exact trials_inBox_of box parents muts box.length dr.jrand dr.chosen dr.crs dr.values tr rq
      ⟨hmuts.1, hs.chosen_len, hs.crs_len, hs.genome_len, hs.chosen_row⟩ hmuts.2 hp hq

/-- what `deGen` returns, unfolded once: mutants, trial rows, `assignFit`, replacement -/
theorem deGen_unfold (mx : Bool) (r : Rounding) (box : Box) (parents : List Ind) (dr : Draws) (g : Gen)
    (h : deGen mx r box parents dr = some g) :
    ∃ muts, mutants r box (parents.map (·.genome)) dr.picks = some muts ∧ muts.length = parents.length ∧
      Shape box parents muts.length dr.chosen dr.crs ∧
      assignFit ((trialRows box.length dr.jrand dr.crs dr.chosen muts (parents.map (·.genome))).zip parents) dr.values
        = some (g.trials, g.requests) ∧
      g.next = deSelect mx parents g.trials := by
  unfold deGen at h
  split at h
  · simp at h
  · rename_i hs
    have hs := shapeOk_shape box parents dr (by simpa using hs)
    simp only [Option.bind_eq_some_iff, Option.map_eq_some_iff] at h
    obtain ⟨muts, hm, q, hq, rfl⟩ := h
    obtain ⟨hml, _⟩ := mutants_spec r box _ dr.picks muts hm
    exact ⟨muts, hm, by rw [hml]; exact hs.picks_len,
      ⟨by rw [hml]; exact hs.picks_len, hs.chosen_len, hs.crs_len, hs.genome_len, hs.chosen_row⟩, by simpa using hq, rfl⟩

/-- **C12 (size).**  One trial per parent, and the new population has the parents' size. -/
theorem deGen_size (mx : Bool) (r : Rounding) (box : Box) (parents : List Ind) (dr : Draws) (g : Gen)
    (h : deGen mx r box parents dr = some g) :
    g.trials.length = parents.length ∧ g.next.length = parents.length := by
  obtain ⟨muts, _, hml, hs, ha, hn⟩ := deGen_unfold mx r box parents dr g h
  obtain ⟨hl, _, _, _⟩ := assignFit_spec _ _ _ _ ha
  have hlen : (trialRows box.length dr.jrand dr.crs dr.chosen muts (parents.map (·.genome))).length = parents.length := by
    rw [trialRows_length] <;> simp [hs.crs_len, hs.chosen_len, hml]
  have ht : g.trials.length = parents.length := by
    rw [hl, List.length_zip, hlen, Nat.min_self]
  exact ⟨ht, by rw [hn]; exact C12.de_size mx parents g.trials ht⟩

/-- **C03 / C02 (requests).**  The objective is invoked exactly once per trial row whose
genome differs from its parent's, in row order, at exactly that genome; the values it returned
are exactly the values the environment supplied. -/
theorem deGen_requests (mx : Bool) (r : Rounding) (box : Box) (parents : List Ind) (dr : Draws) (g : Gen)
    (h : deGen mx r box parents dr = some g) :
    g.requests.map (·.2) = dr.values ∧
    g.requests.map (·.1) =
      ((g.trials.zip parents).filter fun p => decide (p.1.genome ≠ p.2.genome)).map (·.1.genome) := by
  obtain ⟨muts, _, hml, hs, ha, _⟩ := deGen_unfold mx r box parents dr g h
  obtain ⟨hl, hi, hv, hr⟩ := assignFit_spec _ _ _ _ ha
  refine ⟨hv, ?_⟩
  rw [hr]
  -- both sides filter the same rows: the trial's genome is the trial row
  have hlen : (trialRows box.length dr.jrand dr.crs dr.chosen muts (parents.map (·.genome))).length = parents.length := by
    rw [trialRows_length] <;> simp [hs.crs_len, hs.chosen_len, hml]
  have hz : ((trialRows box.length dr.jrand dr.crs dr.chosen muts (parents.map (·.genome))).zip parents)
      = (g.trials.zip parents).map fun p => (p.1.genome, p.2) := by
    apply List.ext_getElem
    · simp [hl, hlen]
    · intro i h1 h2
      have h3 : i < g.trials.length := by rw [hl]; exact h1
      obtain ⟨hg, _⟩ := hi i h3 h1
      simp only [List.getElem_map, List.getElem_zip] at hg ⊢
      rw [hg]
  rw [hz, List.filter_map, List.map_map]
  rfl

/-- **C02 (carry-over).**  Row by row: the trial has the genome of the trial row; if that is its
parent's genome the trial *is* the parent (same genome, same fitness — nothing was evaluated);
otherwise the pair (genome, fitness) is one of the logged requests. -/
theorem deGen_carry (mx : Bool) (r : Rounding) (box : Box) (parents : List Ind) (dr : Draws) (g : Gen)
    (h : deGen mx r box parents dr = some g) (i : Nat) (h1 : i < g.trials.length) (h2 : i < parents.length) :
    (g.trials[i].genome = parents[i].genome → g.trials[i] = parents[i]) ∧
    (g.trials[i].genome ≠ parents[i].genome → (g.trials[i].genome, g.trials[i].fit) ∈ g.requests) := by
  obtain ⟨muts, _, hml, hs, ha, _⟩ := deGen_unfold mx r box parents dr g h
  obtain ⟨hl, hi, _, _⟩ := assignFit_spec _ _ _ _ ha
  obtain ⟨hg, hc, hn⟩ := hi i h1 (by rw [← hl]; exact h1)
  simp only [List.getElem_zip] at hg hc hn
  constructor
  · intro he
    have := hc (by rw [← hg]; exact he)
    cases ht : g.trials[i] with
    | mk tg tf =>
      cases hp : parents[i] with
      | mk pg pf =>
        rw [ht, hp] at he this
        simp only at he this
        rw [he, this]
  · intro hne
    exact hn (by rw [← hg]; exact hne)

/-- **C11.**  Every individual of the new population is the parent or the trial of one row. -/
theorem deGen_next_mem (mx : Bool) (r : Rounding) (box : Box) (parents : List Ind) (dr : Draws) (g : Gen)
    (h : deGen mx r box parents dr = some g) : ∀ x ∈ g.next, x ∈ parents ∨ x ∈ g.trials := by
  obtain ⟨_, _, _, _, _, hn⟩ := deGen_unfold mx r box parents dr g h
  rw [hn]
  intro x hx
  simp only [deSelect, List.mem_append, List.mem_map, List.mem_filter] at hx
  rcases hx with ⟨p, ⟨hp, _⟩, rfl⟩ | ⟨p, ⟨hp, _⟩, rfl⟩
  · exact Or.inr (List.of_mem_zip hp).2
  · exact Or.inl (List.of_mem_zip hp).1

/-! ### SHADE: the same laws (the generation differs from DE's only in how the mutants are made) -/

theorem shadeGen_unfold (mx : Bool) (r : Rounding) (box : Box) (parents : List Ind) (arch : List Genome)
    (dr : SDraws) (g : SGen) (h : shadeGen mx r box parents arch dr = some g) :
    ∃ muts : List Genome, muts.length = parents.length ∧
      Shape box parents muts.length dr.chosen dr.crs ∧
      assignFit ((trialRows box.length dr.jrand dr.crs dr.chosen muts (parents.map (·.genome))).zip parents) dr.values
        = some (g.trials, g.requests) ∧
      g.next = deSelect mx parents g.trials ∧
      g.archive = arch ++ (replaced mx parents g.trials).map (·.genome) := by
  unfold shadeGen at h
  split at h
  · simp at h
  · rename_i hs
    have hs := sshapeOk_shape mx r box parents arch dr (by simpa using hs)
    simp only [Option.bind_eq_some_iff, Option.map_eq_some_iff] at h
    obtain ⟨muts, hm, q, hq, rfl⟩ := h
    have hml : muts.length = parents.length := by
      split at hm
      · simp only [Option.some.injEq] at hm
        subst hm; simp
      · obtain ⟨hl, _⟩ := seqOpt_spec _ _ hm
        simpa [hs.picks_len] using hl
    exact ⟨muts, hml, ⟨hml, hs.chosen_len, hs.crs_len, hs.genome_len, hs.chosen_row⟩, by simpa using hq, rfl, rfl⟩

/-- **C03 / C02, SHADE.**  One objective call per trial row that differs from its parent row, in
row order; a row that equals its parent keeps the parent's fitness (it *is* the parent). -/
theorem shadeGen_requests_carry (mx : Bool) (r : Rounding) (box : Box) (parents : List Ind) (arch : List Genome)
    (dr : SDraws) (g : SGen) (h : shadeGen mx r box parents arch dr = some g) :
    g.requests.map (·.2) = dr.values ∧ g.trials.length = parents.length ∧ g.next.length = parents.length ∧
    ∀ i (h1 : i < g.trials.length) (h2 : i < parents.length),
      (g.trials[i].genome = parents[i].genome → g.trials[i] = parents[i]) ∧
      (g.trials[i].genome ≠ parents[i].genome → (g.trials[i].genome, g.trials[i].fit) ∈ g.requests) := by
  obtain ⟨muts, hml, hs, ha, hn, _⟩ := shadeGen_unfold mx r box parents arch dr g h
  obtain ⟨hl, hi, hv, _⟩ := assignFit_spec _ _ _ _ ha
  have hlen : (trialRows box.length dr.jrand dr.crs dr.chosen muts (parents.map (·.genome))).length = parents.length := by
    rw [trialRows_length] <;> simp [hs.crs_len, hs.chosen_len, hml]
  have ht : g.trials.length = parents.length := by
    rw [hl, List.length_zip, hlen, Nat.min_self]
  refine ⟨hv, ht, by rw [hn]; exact C12.de_size mx parents g.trials ht, ?_⟩
  intro i h1 h2
  obtain ⟨hg, hc, hne⟩ := hi i h1 (by rw [← hl]; exact h1)
  simp only [List.getElem_zip] at hg hc hne
  constructor
  · intro he
    have := hc (by rw [← hg]; exact he)
    cases ht : g.trials[i] with
    | mk tg tf =>
      cases hp : parents[i] with
      | mk pg pf =>
        rw [ht, hp] at he this
        simp only at he this
        rw [he, this]
  · intro hh
    exact hne (by rw [← hg]; exact hh)

/-- **SHADE archive.**  The archive only grows by genomes of parents that were replaced in this
generation — so every archive member has the box's dimension and lies in the box whenever the
parents did (the hypothesis `ha` of `shadeGen_trials_inBox` is an invariant). -/
theorem shadeGen_archive (mx : Bool) (r : Rounding) (box : Box) (parents : List Ind) (arch : List Genome)
    (dr : SDraws) (g : SGen) (h : shadeGen mx r box parents arch dr = some g) :
    ∀ a ∈ g.archive, a ∈ arch ∨ ∃ p ∈ parents, p.genome = a := by
  obtain ⟨_, _, _, _, _, harch⟩ := shadeGen_unfold mx r box parents arch dr g h
  rw [harch]
  intro a ha
  rcases List.mem_append.mp ha with h1 | h1
  · exact Or.inl h1
  · right
    simp only [replaced, List.mem_map, List.mem_filter] at h1
    obtain ⟨p, ⟨q, ⟨hq, _⟩, rfl⟩, rfl⟩ := h1
    exact ⟨q.1, (List.of_mem_zip hq).1, rfl⟩

/-! ### a collapsed population (known finding D19) -/

theorem donorRow_same (r : Rounding) (f : Rat) (a y : Genome) (h0 : r 0 = some 0) (hfix : ∀ x ∈ a, r x = some x)
    (h : donorRow r f a a a = some y) : y = a := by
  unfold donorRow at h
  obtain ⟨hl, hi⟩ := seqOpt_spec _ _ h
  simp only [List.length_map, List.length_zip, Nat.min_self] at hl
  apply List.ext_getElem hl
  intro i h1 h2
  have := hi i (by simp; exact h2) h1
  simp only [List.getElem_map, List.getElem_zip, donorCoord, sub_self, h0, Option.bind_some, mul_zero, add_zero,
    hfix _ (List.getElem_mem h2), Option.some.injEq] at this
  exact this.symm

theorem deSelect_self (mx : Bool) (l : List Ind) : deSelect mx l l = l := by
  have hw : ∀ p ∈ l.zip l, trialWins mx p.1 p.2 = true := by
    intro p hp
    have : p.1 = p.2 := by
      clear * - hp
      induction l with
      | nil => simp at hp
      | cons a t ih =>
        simp only [List.zip_cons_cons, List.mem_cons] at hp
        rcases hp with rfl | hp
        · rfl
        · exact ih hp
    rw [this]
    simp [trialWins, worse, Fit.worse_irrefl]
  have h1 : (l.zip l).filter (fun p => trialWins mx p.1 p.2) = l.zip l := List.filter_eq_self.mpr hw
  have h2 : (l.zip l).filter (fun p => !trialWins mx p.1 p.2) = [] := by
    rw [List.filter_eq_nil_iff]
    intro p hp
    simp [hw p hp]
  simp only [deSelect, h1, h2, List.map_nil, List.append_nil]
  clear hw h1 h2
  induction l with
  | nil => rfl
  | cons a t ih => simp [ih]

/-- **The mechanism of known finding D19.**  A DE population that has collapsed to one point
`g0` of the box (whose coordinates are binary64 values) reproduces itself without a single
objective call: every donor `g0 + F·(g0 − g0)` is `g0`, `reflect` leaves it alone, every trial
row equals its parent row and keeps the parent's fitness — whatever the draws are. -/
theorem deGen_collapsed (mx : Bool) (r : Rounding) (box : Box) (parents : List Ind) (dr : Draws) (g : Gen)
    (g0 : Genome) (hall : ∀ p ∈ parents, p.genome = g0) (hin : InBox box g0)
    (h0 : r 0 = some 0) (hfix : ∀ x ∈ g0, r x = some x)
    (h : deGen mx r box parents dr = some g) :
    g.requests = [] ∧ g.trials = parents ∧ g.next = parents := by
  obtain ⟨muts, hm, hml, hs, ha, hn⟩ := deGen_unfold mx r box parents dr g h
  obtain ⟨hts, _⟩ := deGen_size mx r box parents dr g h
  obtain ⟨hl, hi, _, _⟩ := assignFit_spec _ _ _ _ ha
  have hgen : ∀ gg ∈ parents.map (·.genome), gg = g0 := by
    intro gg hgg
    simp only [List.mem_map] at hgg
    obtain ⟨a, ha, rfl⟩ := hgg
    exact hall a ha
  -- every mutant is g0
  have hmut : ∀ m ∈ muts, m = g0 := by
    intro m hmm
    obtain ⟨_, hmi⟩ := mutants_spec r box _ dr.picks muts hm
    obtain ⟨p, _, hpm⟩ := hmi m hmm
    unfold mutant at hpm
    split at hpm
    · rename_i a b c ha hb hc
      have ea := hgen a (List.mem_of_getElem? ha)
      have eb := hgen b (List.mem_of_getElem? hb)
      have ec := hgen c (List.mem_of_getElem? hc)
      subst ea; subst eb; subst ec
      simp only [Option.bind_eq_some_iff] at hpm
      obtain ⟨don, hd, hr⟩ := hpm
      have := donorRow_same r p.f _ don h0 hfix hd
      subst this
      exact repairRow_inside .reflect r box _ m hin hr
    · simp at hpm
  have hlen : (trialRows box.length dr.jrand dr.crs dr.chosen muts (parents.map (·.genome))).length = parents.length := by
    rw [trialRows_length] <;> simp [hs.crs_len, hs.chosen_len, hml]
  -- every trial genome is its parent's genome
  have hsame : ∀ i (h1 : i < g.trials.length) (h2 : i < parents.length), g.trials[i].genome = parents[i].genome := by
    intro i h1 h2
    obtain ⟨hg, _, _⟩ := hi i h1 (by rw [← hl]; exact h1)
    rw [hg]
    simp only [List.getElem_zip]
    rw [trialRows_getElem box.length dr.jrand dr.crs dr.chosen muts _ i (by rw [hlen]; exact h2) (by rw [hs.crs_len]; exact h2)
      (by rw [hs.chosen_len]; exact h2) (by rw [hml]; exact h2) (by simpa using h2)]
    have e1 : muts[i]'(by rw [hml]; exact h2) = g0 := hmut _ (List.getElem_mem _)
    have e2 : (parents.map (·.genome))[i]'(by simpa using h2) = g0 := hgen _ (List.getElem_mem _)
    have e3 : parents[i].genome = g0 := hall _ (List.getElem_mem _)
    rw [e1, e2, e3]
    apply crossRow_same
    rw [hs.chosen_row _ (List.getElem_mem _), hin.1]
  have htr : g.trials = parents := by
    apply List.ext_getElem hts
    intro i h1 h2
    exact (deGen_carry mx r box parents dr g h i h1 h2).1 (hsame i h1 h2)
  refine ⟨?_, htr, ?_⟩
  · obtain ⟨_, hr⟩ := deGen_requests mx r box parents dr g h
    have : ((g.trials.zip parents).filter fun p => decide (p.1.genome ≠ p.2.genome)) = [] := by
      rw [List.filter_eq_nil_iff]
      intro p hp
      obtain ⟨i, hi1, rfl⟩ := List.getElem_of_mem hp
      simp only [List.getElem_zip, ne_eq, decide_not, Bool.not_eq_eq_eq_not, Bool.not_true, decide_eq_false_iff_not,
        not_not]
      simp only [List.length_zip] at hi1
      exact hsame i (by omega) (by omega)
    rw [this] at hr
    simpa using hr
  · rw [hn, htr]; exact deSelect_self mx parents

/-! ### maximising f ≡ minimising −f, one whole generation (C13) -/

def negDraws (dr : Draws) : Draws := { dr with values := dr.values.map Fit.neg }
def negGen (g : Gen) : Gen :=
  { trials := g.trials.map negInd, requests := g.requests.map (fun q => (q.1, q.2.neg)), next := g.next.map negInd }

theorem map_genome_neg (l : List Ind) : (l.map negInd).map (·.genome) = l.map (·.genome) := by
  simp [List.map_map, Function.comp_def, negInd]

theorem shapeOk_neg (box : Box) (parents : List Ind) (dr : Draws) :
    shapeOk box (parents.map negInd) (negDraws dr) = shapeOk box parents dr := by
  simp only [shapeOk, negDraws, List.all_map, Function.comp_def, negInd, List.length_map]
  rfl

theorem assignFit_mirror : ∀ (tg : List Genome) (parents : List Ind) (vs : List Fit),
    assignFit (tg.zip (parents.map negInd)) (vs.map Fit.neg) =
      (assignFit (tg.zip parents) vs).map fun q => (q.1.map negInd, q.2.map fun x => (x.1, x.2.neg))
  | [], ps, [] => by simp [assignFit]
  | [], ps, _ :: _ => by simp [assignFit]
  | _ :: _, [], [] => by simp [assignFit]
  | _ :: _, [], _ :: _ => by simp [assignFit]
  | g :: tg, p :: ps, vs => by
    simp only [List.map_cons, List.zip_cons_cons]
    unfold assignFit
    by_cases hg : g = p.genome
    · have hg' : g = (negInd p).genome := by simpa [negInd] using hg
      simp only [hg, ↓reduceIte]
      have := assignFit_mirror tg ps vs
      simp only [negInd] at this ⊢
      rw [this]
      cases assignFit (tg.zip ps) vs <;> simp [negInd]
    · have hg' : ¬ g = (negInd p).genome := by simpa [negInd] using hg
      simp only [hg, hg', ↓reduceIte]
      cases vs with
      | nil => simp
      | cons v vs =>
        simp only [List.map_cons]
        rw [assignFit_mirror tg ps vs]
        cases assignFit (tg.zip ps) vs <;> simp [negInd]

/-- **C13, DE.**  For every population, box, rounding function and all draws: one generation
under `maximize = true` and the same generation on the mirrored population (fitness negated,
objective values negated, `maximize = false`) are defined together and are mirror images of
each other — same trial genomes, same evaluation requests in the same order, same survivors. -/
theorem deGen_mirror (r : Rounding) (box : Box) (parents : List Ind) (dr : Draws) :
    deGen false r box (parents.map negInd) (negDraws dr) = (deGen true r box parents dr).map negGen := by
  unfold deGen
  rw [shapeOk_neg]
  split
  · rfl
  · simp only [map_genome_neg]
    cases hm : mutants r box (parents.map (·.genome)) dr.picks with
    | none => simp [negDraws, hm]
    | some muts =>
      simp only [negDraws, hm, Option.bind_some]
      rw [assignFit_mirror]
      cases assignFit ((trialRows box.length dr.jrand dr.crs dr.chosen muts (parents.map (·.genome))).zip parents) dr.values with
      | none => rfl
      | some q =>
        simp only [Option.map_some, negGen, Option.some.injEq]
        rw [C13.deSelect_mirror]

/-! ### non-vacuity: a concrete generation the theorems apply to (kernel-evaluated) -/

def exBox : Box := [(-1, 3), (0, 2)]
def exParents : List Ind := [⟨[0, 1], .fin 1⟩, ⟨[3, 2], .fin 13⟩, ⟨[-1, 0], .fin 1⟩, ⟨[1, 1], .fin 2⟩]
def exDraws : Draws :=
  { picks := [⟨1, 2, 3, 2⟩, ⟨0, 2, 3, 2⟩, ⟨0, 1, 3, 2⟩, ⟨0, 1, 2, 2⟩],
    chosen := [[1/2, 1/2], [1/2, 1/2], [1/2, 1/2], [1/2, 1/2]], jrand := 0,
    crs := [9/10, 9/10, 9/10, 1/10], values := [.fin 1, .fin 5, .fin 5] }

/-- the example generation is accepted, in ideal and in binary64 arithmetic: the first donor
`(3,2) + 2·((−1,0) − (1,1)) = (−1,0)` is inside, the second `(0,1) + 2·((−1,0) − (1,1)) = (−4,−1)` is
reflected to `(2,1)`, the last row's crossover (`cr = 1/10`, row not zeroed) keeps the parent:
three evaluations for four rows, the carried row is its parent. -/
example : (deGen false ideal exBox exParents exDraws).map (fun g => (g.trials.map (·.genome), g.requests.length, g.next.length))
    = some ([[-1, 0], [2, 1], [2, 1], [1, 1]], 3, 4) := by decide +kernel
example : (deGen false F64.rnd exBox exParents exDraws).map (fun g => (g.trials.map (·.genome), g.requests.length, g.next.length))
    = some ([[-1, 0], [2, 1], [2, 1], [1, 1]], 3, 4) := by decide +kernel

example : BoxOk exBox ∧ ∀ p ∈ exParents, InBox exBox p.genome := by
  refine ⟨by intro b hb; simp only [exBox, List.mem_cons, List.not_mem_nil, or_false] at hb; rcases hb with rfl | rfl <;> norm_num, ?_⟩
  intro p hp
  simp only [exParents, List.mem_cons, List.not_mem_nil, or_false] at hp
  rcases hp with rfl | rfl | rfl | rfl <;>
  · refine ⟨rfl, ?_⟩
    intro i h1 h2
    simp only [exBox, List.length_cons, List.length_nil] at h1 h2
    have : i = 0 ∨ i = 1 := by omega
    rcases this with rfl | rfl <;> simp [exBox] <;> norm_num

end EngineDE
