import PyhmsVerif.Model.Proto
import PyhmsVerif.Model.Repair
import PyhmsVerif.Model.Problem
import PyhmsVerif.Model.Select
import PyhmsVerif.Model.TreeProto
import PyhmsVerif.Model.R5S
import PyhmsVerif.Model.Engine
import PyhmsVerif.Model.Multiwinner
/-!
Line-protocol driver: one operation per input line, one answer per output line.
`lake env lean --run Driver.lean < ops.txt`
-/
open Proto

def parseMethod : P Repair.Method := do
  let t ← tok
  match t with
  | "clip" => pure .clip
  | "reflect" => pure .reflect
  | "toroidal" => pure .toroidal
  | _ => failure

def parseRounding : P F64.Rounding := do
  let t ← tok
  match t with
  | "f64" => pure F64.rnd
  | "ideal" => pure F64.ideal
  | _ => failure

def fitP : P Fit := do
  let t ← tok
  match t with
  | "inf" => pure .posInf
  | "-inf" => pure .negInf
  | _ => match parseRat t with
    | some q => pure (.fin q)
    | none => failure

def showFit : Fit → String
  | .posInf => "inf"
  | .negInf => "-inf"
  | .fin q => showRat q

def indP : P Ind := do
  let g ← list rat
  let f ← fitP
  pure ⟨g, f⟩

def showInd (a : Ind) : String := showList showRat a.genome ++ " " ++ showFit a.fit
def showInds (l : List Ind) : String := showList showInd l

def wrapperP : P Problem.Wrapper := do
  let t ← tok
  match t with
  | "C" => do let n ← nat; pure (.counting n)
  | "X" => do let n ← nat; let c ← nat; pure (.cutoff n c)
  | "S" => do let n ← nat; pure (.stats n)
  | "P" => do
    let n ← nat; let o ← rat; let e ← rat
    let eta ← tok
    let hit ← bool
    pure (.precision n o e (eta.toNat?) hit)
  | _ => failure

def showWrapper : Problem.Wrapper → String
  | .counting n => s!"C {n}"
  | .cutoff n c => s!"X {n} {c}"
  | .stats n => s!"S {n}"
  | .precision n _ _ eta hit => s!"P {n} {showOpt toString eta} {showBool hit}"

/-- state and answer after every call of the sequence -/
def wrapTrace (mx : Bool) (ws : List Problem.Wrapper) (vs : List Fit) : String :=
  let step := fun (acc : List Problem.Wrapper × List String) (v : Fit) =>
    let p := Problem.evalStack mx acc.1 v
    (p.1, acc.2 ++ [s!"{showFit p.2.1} {showBool p.2.2} | " ++ " ; ".intercalate (p.1.map showWrapper)])
  " || ".intercalate (vs.foldl step (ws, [])).2

def boxP : P Engine.Box := list (do let lo ← rat; let hi ← rat; pure (lo, hi))
def pickP : P Engine.Pick := do
  let i0 ← nat; let i1 ← nat; let i2 ← nat; let f ← rat
  pure ⟨i0, i1, i2, f⟩
def ppickP : P Engine.PPick := do
  let pb ← nat; let p ← rat; let i0 ← nat; let j1 ← nat; let f ← rat
  pure ⟨pb, p, i0, j1, f⟩
def showReqs (l : List (Engine.Genome × Fit)) : String :=
  showList (fun q => showList showRat q.1 ++ " " ++ showFit q.2) l

def handle : P String := do
  let op ← tok
  match op with
  | "repair" => do
    let r ← parseRounding; let m ← parseMethod; let lo ← rat; let hi ← rat; let x ← rat
    pure (showOpt showRat (Repair.repair m r lo hi x))
  | "affine" => do
    let lo ← rat; let hi ← rat; let u ← rat
    pure (showOpt showRat (Repair.affine F64.rnd lo hi u))
  | "wrap" => do
    let mx ← bool; let ws ← list wrapperP; let vs ← list fitP
    pure (wrapTrace mx ws vs)
  | "topk" => do
    let mx ← bool; let k ← nat; let pop ← list indP
    pure (showInds (Select.topk mx k pop))
  | "topkok" => do
    let mx ← bool; let k ← nat; let pop ← list indP; let out ← list indP
    pure (showBool (Select.topkOk mx k pop out))
  | "seaok" => do
    let mx ← bool; let k ← nat; let par ← list indP; let off ← list indP
    let el ← list indP; let out ← list indP
    pure (showBool (Select.seaOk mx k par off el out))
  | "seasel" => do
    let mx ← bool; let k ← nat; let par ← list indP; let off ← list indP
    pure (showInds (Select.seaSelect mx k par off))
  | "desel" => do
    let mx ← bool; let par ← list indP; let tr ← list indP
    pure (showInds (Select.deSelect mx par tr))
  | "best" => do
    let mx ← bool; let pop ← list indP
    pure (showOpt showInd (Select.best mx pop))
  | "nbc" => do
    -- nbc <mx> <phi> <t> <pop> <n*n distances> <mean|->
    let mx ← bool; let phi ← rat; let t ← rat; let pop ← list indP
    let m ← rep (pop.length * pop.length) rat
    let mean ← TreeProto.optRatP
    let arr := m.toArray
    let dist := fun (i j : Nat) => arr.getD (i * pop.length + j) 0
    pure (match NBC.cluster mx dist pop phi t mean with
      | some r => showInds r.seeds ++ " | " ++ showList showRat r.dists
      | none => "none")
  | "nbcspec" => do
    -- declarative definition on the same input (thr = fl(mean*phi))
    let mx ← bool; let phi ← rat; let t ← rat; let pop ← list indP
    let m ← rep (pop.length * pop.length) rat
    let mean ← TreeProto.optRatP
    let arr := m.toArray
    let dist := fun (i j : Nat) => arr.getD (i * pop.length + j) 0
    pure (match NBC.truncLen pop.length t, F64.rnd (mean.getD 0 * phi) with
      | some k, some thr =>
        let s := (NBC.sortDesc mx (NBC.sortLex (List.zipIdx pop |>.map fun p => (p.2, p.1)))).take k
        showInds (NBC.spec mx dist s thr)
      | _, _ => "none")
  | "r5s" => do
    -- r5s <mx> <top_k> <n> <pop> <m*m distances, input order> <weighted sums, best-first order>
    let mx ← bool; let k ← nat; let n ← nat; let pop ← list indP
    let m ← rep (pop.length * pop.length) rat
    let w ← list rat
    let arr := m.toArray
    pure (showInds (R5S.r5sD mx k n pop (fun i j => arr.getD (i * pop.length + j) 0) w))
  | "degen" => do
    -- degen <mx> <rounding> <box> <parents> <picks> <chosen> <jrand> <crs> <values>
    let mx ← bool; let r ← parseRounding; let box ← boxP; let par ← list indP
    let picks ← list pickP; let chosen ← list (list rat); let jrand ← nat
    let crs ← list rat; let values ← list fitP
    pure (match Engine.deGen mx r box par ⟨picks, chosen, jrand, crs, values⟩ with
      | some g => showInds g.trials ++ " | " ++ showReqs g.requests ++ " | " ++ showInds g.next
      | none => "none")
  | "shadegen" => do
    -- shadegen <mx> <rounding> <box> <parents> <archive> <ppicks> <chosen> <jrand> <crs> <values>
    let mx ← bool; let r ← parseRounding; let box ← boxP; let par ← list indP
    let arch ← list (list rat)
    let picks ← list ppickP; let chosen ← list (list rat); let jrand ← nat
    let crs ← list rat; let values ← list fitP
    pure (match Engine.shadeGen mx r box par arch ⟨picks, chosen, jrand, crs, values⟩ with
      | some g => showInds g.trials ++ " | " ++ showReqs g.requests ++ " | " ++ showInds g.next ++ " | " ++ showList (showList showRat) g.archive
      | none => "none")
  | "seagen" => do
    -- seagen <mx> <rounding> <sea|seax|ga> <box> <pX> <pM> <parents> <contestants> <pairs> <mask> <noise> <values>
    let mx ← bool; let r ← parseRounding
    let pt ← tok
    let pipe ← (match pt with
      | "sea" => pure Engine.Pipe.sea
      | "seax" => pure Engine.Pipe.seax
      | "ga" => pure Engine.Pipe.ga
      | _ => failure : P Engine.Pipe)
    let box ← boxP; let pX ← rat; let pM ← rat; let par ← list indP
    let cont ← list (list nat)
    let pairs ← list (do let u ← rat; let a ← rat; pure (u, a))
    let mask ← list (list rat); let noise ← list (list rat); let values ← list fitP
    pure (match Engine.seaOffspring mx r pipe box pX pM par ⟨cont, pairs, mask, noise, values⟩ with
      | some g => showInds g.offspring ++ " | " ++ showReqs g.requests
      | none => "none")
  | "mwsel" => do
    -- mwsel <pop> <g> <k> <elections: group prefs orders>
    let pop ← list indP; let g ← nat; let k ← nat
    let es ← list (do
      let group ← list nat; let prefs ← list (list nat); let orders ← list (list nat)
      pure (⟨group, prefs, orders⟩ : MW.Election))
    pure (showOpt showInds (MW.repeated pop g k es))
  | "rnd" => do
    let x ← rat
    pure (showOpt showRat (F64.rnd x))
  | _ => failure

def stepLine (line : String) : String :=
  let toks := (line.trimAscii.toString.splitOn " ").filter (· ≠ "")
  match run handle toks with
  | some s => s
  | none => "bad-op"

/-- tree state carried across lines: configuration, current tree or the first error -/
structure Session where
  cfg : Option (Tree.Cfg × List (List Problem.Wrapper)) := none
  tree : Except String Tree.T := .error "no tree"
  nev : Nat := 0

def treeLine (s : Session) (toks : List String) : Session × String :=
  match toks with
  | "tcfg" :: rest =>
    match run TreeProto.cfgP rest with
    | some c => ({ s with cfg := some c, tree := .error "not initialised", nev := 0 }, "ok")
    | none => (s, "bad-op")
  | "tinit" :: rest =>
    match s.cfg, run TreeProto.newEnvP rest with
    | some (c, st), some e =>
      let t := Tree.init c st e
      ({ s with tree := t }, match t with | .ok _ => "ok" | .error m => "error: " ++ m)
    | _, _ => (s, "bad-op")
  | "tev" :: rest =>
    match run TreeProto.evP rest with
    | none => (s, "bad-op")
    | some ev =>
      match s.tree with
      | .error m => (s, "error: " ++ m)
      | .ok t =>
        let t' := Tree.step t ev
        ({ s with tree := t', nev := s.nev + 1 },
          match t' with | .ok _ => "ok" | .error m => s!"error: event {s.nev + 1}: " ++ m)
  | ["tdump"] =>
    (s, match s.tree with | .ok t => TreeProto.dump t false | .error m => "error: " ++ m)
  | ["tdumpfull"] =>
    (s, match s.tree with | .ok t => TreeProto.dump t true | .error m => "error: " ++ m)
  | "tstages" :: rest =>
    -- the outputs of every stage of the sprout mechanism on the current state
    match run TreeProto.sproutEnvP rest, s.tree with
    | some env, .ok t =>
      (s, match Sprout.getSeedsTrace (Tree.view t) env t.cfg.mech with
          | some tr => TreeProto.dumpStages tr
          | none => "none")
    | _, .error m => (s, "error: " ++ m)
    | none, _ => (s, "bad-op")
  | _ => (s, "bad-op")

partial def loop (h : IO.FS.Stream) (s : Session) : IO Unit := do
  let line ← h.getLine
  if line.isEmpty then return ()
  let toks := (line.trimAscii.toString.splitOn " ").filter (· ≠ "")
  match toks with
  | t :: _ =>
    if t.startsWith "t" && t != "topk" && t != "topkok" then
      let (s', out) := treeLine s toks
      IO.println out
      loop h s'
    else
      IO.println (stepLine line)
      loop h s
  | [] =>
    IO.println "bad-op"
    loop h s

def main : IO Unit := do loop (← IO.getStdin) {}
