import numpy as np, sys, warnings, hashlib
warnings.filterwarnings("ignore")
sys.argv=[sys.argv[0]]
exec(open('/root/scratch/probe10.py').read().split("bad=0;tot=0")[0])
import cma
log={False:[],True:[]}
cur=[None]
ot=cma.CMAEvolutionStrategy.tell; oa=cma.CMAEvolutionStrategy.ask
def tell(self,X,F,*a,**k):
    log[cur[0]].append(("tell",hashlib.md5(np.asarray(X).tobytes()).hexdigest()[:8],hashlib.md5(np.asarray(F,float).tobytes()).hexdigest()[:8],hashlib.md5(np.random.get_state()[1].tobytes()).hexdigest()[:8], int(np.random.get_state()[2])))
    return ot(self,X,F,*a,**k)
def ask(self,*a,**k):
    r=oa(self,*a,**k)
    log[cur[0]].append(("ask",hashlib.md5(np.asarray(r).tobytes()).hexdigest()[:8],hashlib.md5(np.random.get_state()[1].tobytes()).hexdigest()[:8], int(np.random.get_state()[2])))
    return r
cma.CMAEvolutionStrategy.tell=tell; cma.CMAEvolutionStrategy.ask=ask
for m in [False,True]:
    cur[0]=m; t=build(m,["de","cma","local"],2,"simple"); t.run()
for i,(a,b) in enumerate(zip(log[False],log[True])):
    if a!=b: print(i,a,b); break
else: print("same", len(log[False]), len(log[True]))
print(log[False][:4]); print(log[True][:4])
