import PyhmsVerif.Model.Seed
/-!
# C14 — a seeded run is exactly reproducible (seeding-plan part)

A statement about *which generator feeds which consumer*, not about NumPy.  The runtime part
(hash-order iteration, entropy inside libraries) is sampled by twin runs (harness/props/c14.py).
-/
namespace C14
open Seed

/-- with a seed, the starting state of every consumer's generator is independent of the
ambient generator states and of OS entropy -/
theorem ambient_independent (s : Nat) (a1 a2 : Ambient) (c : Consumer) :
    source (some s) a1 c = source (some s) a2 c := by
  cases c <;> rfl

theorem cma_seed_depends_only_on_seed_and_start (s k : Nat) (a : Ambient) :
    source (some s) a (.cma k) = s + k := rfl

/-- without a seed nothing is claimed: the sources are the ambient states -/
theorem unseeded_not_claimed : ∃ a1 a2 : Ambient, source none a1 .npGlobal ≠ source none a2 .npGlobal :=
  ⟨⟨0, 0, 0⟩, ⟨1, 0, 0⟩, by decide⟩

end C14
