import numpy as np, random, sys
pass
from pyhms import *
from pyhms.config import *
from pyhms.demes.single_pop_eas.sea import *
from pyhms.tree import DemeTree
from pyhms.sprout import *

calls=[]
def f(x):
    calls.append(np.array(x,copy=True))
    return float(np.sum(np.asarray(x)**2))
bounds=np.array([(-3.0,5.0),(-2.0,7.0)])
prob=FunctionProblem(f,bounds=bounds,maximize=False)

def run(levels,gsc,sprout,opts):
    calls.clear()
    t=DemeTree(TreeConfig(levels,gsc,sprout,options=opts))
    return t

# C11: generation chain for EA with generations=3
levels=[EALevelConfig(ea_class=SEA,generations=3,problem=prob,pop_size=6,mutation_std=1.0,lsc=DontStop()),
        DELevelConfig(generations=3,problem=prob,pop_size=6,lsc=DontStop(),sample_std_dev=0.5)]
t=run(levels,MetaepochLimit(4),get_simple_sprout(0.5,level_limit=2),{"random_seed":3})
t.run()
def key(ind): return (tuple(ind.genome.tolist()), float(ind.fitness))
for lvl,d in t.all_demes:
    h=d.history
    print(d.id, type(d).__name__, "gens", len(h), "n_evals", d.n_evaluations)
    for me_i,me in enumerate(d._history):
        for gi,g in enumerate(me):
            pass
    # check each gen: individuals either in previous gen or new
    flat=[]
    for me_i,me in enumerate(d._history):
        for gi,g in enumerate(me):
            flat.append((me_i,gi,g))
    for i in range(1,len(flat)):
        prev=set(key(x) for x in flat[i-1][2])
        start=set(key(x) for x in d._history[flat[i][0]-1][-1]) if flat[i][0]>0 else set()
        cur=[key(x) for x in flat[i][2]]
        from_prev=sum(1 for c in cur if c in prev)
        from_start=sum(1 for c in cur if c in start)
        print("   me",flat[i][0],"gen",flat[i][1],"best",min(x.fitness for x in flat[i][2]),"from_prev",from_prev,"from_metaepoch_start",from_start)
    print("  centroid", d.centroid, "true", np.mean([i.genome for i in d.current_population],axis=0))
