#!/bin/bash
# usage: tools/run_seed.sh <seed-id> <property> [tier]
# applies seeded/<id>/patch.diff to /repo, runs the property's check, reverts /repo.
# The evidence file of the property is put back afterwards: evidence/ only ever holds runs on the unchanged tree.
ID=$1; P=$2; TIER=${3:-quick}
cd /verif
git -C /repo status --short | grep -q . && { echo "/repo not clean"; exit 2; }
git -C /repo apply /verif/seeded/$ID/patch.diff || exit 2
cp evidence/$P.json /tmp/.evidence_$P.keep 2>/dev/null
VERIF_SEED=${VERIF_SEED:-0} ./check.py $P --tier $TIER 2>&1 | tail -3
rc=${PIPESTATUS[0]}
git -C /repo checkout -- . 
[ -f /tmp/.evidence_$P.keep ] && mv /tmp/.evidence_$P.keep evidence/$P.json
exit $rc
