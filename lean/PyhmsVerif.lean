import PyhmsVerif.Model.Proto
import PyhmsVerif.Model.F64
import PyhmsVerif.Model.Repair
