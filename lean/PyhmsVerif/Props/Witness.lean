import PyhmsVerif.Model.Tree
/-!
# Non-vacuity: a concrete accepted run

A two-level tree (SEA root, SEA leaves, best-per-deme generator, `LevelLimit 1`, stop after
two metaepochs) is constructed, runs one metaepoch, sprouts a child, runs a second metaepoch
(child first, then root) and returns — every event is accepted by `Tree.step`, checked by
kernel evaluation (`decide +kernel`, no axioms).  The hypotheses `init … = .ok t0` and
`exec t0 evs = .ok t` of the run-level theorems are therefore satisfiable by a run that sprouts.
-/
namespace Witness
open Tree

def lvl : LevelCfg :=
  { engine := .ea, cls := "EADeme", generations := 1, popSize := 2, lsc := .dontStop, stack := 0,
    elitist := true, box := [((0 : Rat), (10 : Rat))] }

def cfg : Cfg :=
  { levels := [lvl, lvl], gsc := .metaepochLimit 2, hibernation := false, maximize := false,
    mech := { gen := .bestPerDeme, demeFilters := [], treeFilters := [.levelLimit 1] } }

def i (x f : Rat) : Ind := ⟨[x], .fin f⟩
def r (x f : Rat) : Req := ⟨[x], some (.fin f)⟩

def rootEnv : NewEnv := ⟨[r 1 5, r 2 3], [i 1 5, i 2 3]⟩
def env : Sprout.Env := { nbc := fun _ => none, dist := fun _ _ => none }

def evs : List Ev :=
  [ .loop none,
    .gen [] ⟨[r 3 2, r 4 4], [i 3 2, i 2 3], none, false⟩ none,            -- root: one generation
    .round none env [⟨[r 3 2, r 5 1], [i 3 2, i 5 1]⟩],                  -- sprout from the root's best (3, 2)
    .loop none,
    .gen [0] ⟨[r 6 (1/2)], [i 6 (1/2), i 5 1], none, false⟩ none,        -- the child runs first
    .gen [] ⟨[r 7 7], [i 3 2, i 2 3], none, false⟩ none,                  -- then the root
    .round none env [],                                                  -- level limit 1 reached: no sprout
    .loop none ]                                                         -- metaepoch limit: run() returns

def final : Except String T := (init cfg [[]] rootEnv).bind fun t0 => exec t0 evs

def digest : Except String T → Option (Nat × Nat × Nat × Nat × List (List Nat) × List Bool × Bool)
  | .ok t => some (t.demes.length, t.metaepoch, t.nEvals, t.log.length, t.demes.map (·.id), t.demes.map (·.active),
      (match t.pc with | .done => true | _ => false))
  | .error _ => none

end Witness

namespace Witness
open Tree
/-- the run is accepted and `run()` returned: two demes (`root` and `0`), two metaepochs,
8 evaluations = 8 logged invocations; the global stop condition deactivated both demes -/
theorem accepted : digest final = some (2, 2, 8, 8, [[], [0]], [false, false], true) := by
  have h : (digest final == some (2, 2, 8, 8, [[], [0]], [false, false], true)) = true := by decide +kernel
  exact eq_of_beq h

/-- in particular the hypotheses of the run-level theorems are satisfiable -/
theorem run_exists : ∃ t0 t, init cfg [[]] rootEnv = .ok t0 ∧ exec t0 evs = .ok t ∧ t.demes.length = 2 := by
  have h := accepted
  unfold final at h
  cases hi : init cfg [[]] rootEnv with
  | error e => rw [hi] at h; simp [Except.bind, digest] at h
  | ok t0 =>
    rw [hi] at h
    simp only [Except.bind] at h
    cases he : exec t0 evs with
    | error e => rw [he] at h; simp [digest] at h
    | ok t =>
      rw [he] at h
      simp only [digest, Option.some.injEq, Prod.mk.injEq] at h
      exact ⟨t0, t, rfl, he, h.1⟩

/-- … and by a run that returns (`run()` came back): the hypotheses of `C05_metaepochLimit_exact`
(`MetaepochLimit 2`, final state `done`) are met, and its conclusion is what `accepted` shows -/
theorem run_done : ∃ t0 t, init cfg [[]] rootEnv = .ok t0 ∧ exec t0 evs = .ok t ∧ t.pc = .done ∧
    cfg.gsc = .metaepochLimit 2 ∧ t.metaepoch = 2 := by
  have h := accepted
  unfold final at h
  cases hi : init cfg [[]] rootEnv with
  | error e => rw [hi] at h; simp [Except.bind, digest] at h
  | ok t0 =>
    rw [hi] at h
    simp only [Except.bind] at h
    cases he : exec t0 evs with
    | error e => rw [he] at h; simp [digest] at h
    | ok t =>
      rw [he] at h
      simp only [digest, Option.some.injEq, Prod.mk.injEq] at h
      refine ⟨t0, t, rfl, he, ?_, rfl, h.2.1⟩
      have hp := h.2.2.2.2.2.2
      cases hpc : t.pc <;> simp [hpc] at hp
      rfl
end Witness
